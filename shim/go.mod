module verifshim

go 1.23
