//go:build !race

package simhook

import "unsafe"

const RaceEnabled = false

func RaceDisable()                      {}
func RaceEnable()                       {}
func RaceAcquire(p unsafe.Pointer)      {}
func RaceReleaseMerge(p unsafe.Pointer) {}
