package simhook

import "sync"

type realMutex struct{ m sync.Mutex }

// Lock takes the internal mutex invisibly to the race detector.
func (r *realMutex) Lock() {
	RaceDisable()
	r.m.Lock()
	RaceEnable()
}

func (r *realMutex) Unlock() {
	RaceDisable()
	r.m.Unlock()
	RaceEnable()
}
