// Package simhook is the seam between the sync/atomic shims and a simulator.
//
// With no simulator installed (all hooks nil) the shims behave like the real
// primitives (pool = plain LIFO free list that never drops). A simulator
// installs the hooks only while the system is quiescent.
//
// Everything here is touched by exactly one running goroutine at a time while a
// simulator is installed (cooperative scheduling), and all of it is accessed
// from //go:norace functions so that the race detector sees none of it.
package simhook

// Kind of synchronisation operation announced through Yield.
type Kind uint8

const (
	KPoolGet Kind = iota
	KPoolPut
	KLock
	KUnlock
	KRLock
	KRUnlock
	KOnce
	KAtomicLoad
	KAtomicStore
	KAtomicRMW
	KWait
	KOther
	KPoolPutDone // the object is in the pool now; the putter continues
)

var kindNames = [...]string{"pool.Get", "pool.Put", "Lock", "Unlock", "RLock", "RUnlock", "Once", "atomic.Load", "atomic.Store", "atomic.RMW", "Wait", "other", "pool.Put(done)"}

func (k Kind) String() string {
	if int(k) < len(kindNames) {
		return kindNames[k]
	}
	return "?"
}

// Hooks (nil = no simulator).
var (
	// Yield is called immediately before every synchronisation operation.
	// obj identifies the object (address); it is only used for equality.
	Yield func(k Kind, obj uintptr)
	// Block parks the calling task until Wake(obj) is called by another task.
	// It returns after the task has been rescheduled; callers re-check their
	// condition in a loop.
	Block func(obj uintptr)
	// Wake marks every task blocked on obj runnable again.
	Wake func(obj uintptr)
	// PoolGet decides what Get returns: -1 = miss (call New / return nil),
	// otherwise the index into the n resident items (0 = oldest).
	PoolGet func(p *PoolInfo, n int) int
	// PoolPut decides whether a Put keeps the item (true) or drops it.
	PoolPut func(p *PoolInfo) bool
)

// PoolInfo is the registry record of one pool.
type PoolInfo struct {
	ID    int
	Site  string // file:line of the first Get/Put caller outside the shim
	Purge func() // empties the pool
	Len   func() int
	Dup   func() bool // the same object is resident more than once
}

var pools []*PoolInfo

// RegisterPool is called by simsync.Pool on first use.
//
//go:norace
func RegisterPool(site string, purge func(), length func() int, dup func() bool) *PoolInfo {
	pi := &PoolInfo{ID: len(pools), Site: site, Purge: purge, Len: length, Dup: dup}
	n := len(pools)
	if n == cap(pools) {
		grown := make([]*PoolInfo, n, 2*n+64)
		for i := 0; i < n; i++ {
			grown[i] = pools[i]
		}
		pools = grown
	}
	pools = pools[:n+1]
	pools[n] = pi
	return pi
}

// Pools returns the registry (creation order = first-use order).
//
//go:norace
func Pools() []*PoolInfo { return pools }

// PurgeAll empties every registered pool (what a GC cycle may do).
//
//go:norace
func PurgeAll() {
	for _, p := range pools {
		p.Purge()
	}
}

// Mu guards the registry and pool contents when no simulator is installed and
// several real goroutines use the shims. It is always taken inside
// RaceDisable/RaceEnable so that it creates no happens-before edges.
var Mu realMutex
