//go:build race

package simhook

import (
	"runtime"
	"unsafe"
)

const RaceEnabled = true

func RaceDisable()                      { runtime.RaceDisable() }
func RaceEnable()                       { runtime.RaceEnable() }
func RaceAcquire(p unsafe.Pointer)      { runtime.RaceAcquire(p) }
func RaceReleaseMerge(p unsafe.Pointer) { runtime.RaceReleaseMerge(p) }
