package simsync

import (
	"runtime"
	"slices"
	"strconv"
	"strings"
	"unsafe"

	"verifshim/simhook"
)

// Pool replaces sync.Pool. Contents are an explicit slice; every decision a
// real pool takes nondeterministically (hit or miss, which item, keep or drop,
// purge) is delegated to simhook. With no simulator installed it is a plain
// LIFO free list that never drops.
//
// Happens-before edges are exactly those of the real pool under the race
// detector: a per-item release in Put and acquire in Get; nothing else.
type Pool struct {
	noCopy noCopy

	New func() any

	items []any
	info  *simhook.PoolInfo
}

type noCopy struct{}

func (*noCopy) Lock()   {}
func (*noCopy) Unlock() {}

var poolRaceHash [128]uint64

//go:norace
func poolRaceAddr(x any) unsafe.Pointer {
	ptr := uintptr((*[2]unsafe.Pointer)(unsafe.Pointer(&x))[1])
	h := uint32((uint64(uint32(ptr)) * 0x85ebca6b) >> 16)
	return unsafe.Pointer(&poolRaceHash[h%uint32(len(poolRaceHash))])
}

//go:norace
func (p *Pool) register() {
	if p.info != nil {
		return
	}
	site := "?"
	var pcs [12]uintptr
	n := runtime.Callers(3, pcs[:])
	fr := runtime.CallersFrames(pcs[:n])
	for {
		f, more := fr.Next()
		if f.File != "" && !strings.Contains(f.File, "/shim/simsync/") {
			file := f.File
			if i := strings.Index(file, "/pkg/"); i >= 0 {
				file = file[i+1:]
			} else if i := strings.Index(file, "/cmd/"); i >= 0 {
				file = file[i+1:]
			}
			site = file + ":" + strconv.Itoa(f.Line) + " " + shortFunc(f.Function)
			break
		}
		if !more {
			break
		}
	}
	p.info = simhook.RegisterPool(site, p.purge, p.length, p.dup)
}

func shortFunc(s string) string {
	if i := strings.LastIndex(s, "/"); i >= 0 {
		s = s[i+1:]
	}
	return s
}

//go:norace
func (p *Pool) purge() {
	for i := range p.items {
		p.items[i] = nil
	}
	p.items = p.items[:0]
}

//go:norace
func (p *Pool) length() int { return len(p.items) }

// dup reports whether the same pointer is resident twice (a double Put).
//
//go:norace
func (p *Pool) dup() bool {
	n := len(p.items)
	if n < 2 {
		return false
	}
	ptrs := make([]uintptr, n)
	for i := range p.items {
		ptrs[i] = uintptr((*[2]unsafe.Pointer)(unsafe.Pointer(&p.items[i]))[1])
	}
	slices.Sort(ptrs)
	for i := 1; i < n; i++ {
		if ptrs[i] == ptrs[i-1] && ptrs[i] != 0 {
			return true
		}
	}
	return false
}

// Info returns the registry record (registering the pool if needed).
//
//go:norace
func (p *Pool) Info() *simhook.PoolInfo {
	simhook.Mu.Lock()
	p.register()
	simhook.Mu.Unlock()
	return p.info
}

// Put adds x to the pool.
//
//go:norace
func (p *Pool) Put(x any) {
	if x == nil {
		return
	}
	if y := simhook.Yield; y != nil {
		y(simhook.KPoolPut, uintptr(unsafe.Pointer(p)))
	}
	simhook.Mu.Lock()
	p.register()
	keep := true
	if f := simhook.PoolPut; f != nil {
		keep = f(p.info)
	}
	if keep {
		if simhook.RaceEnabled {
			simhook.RaceReleaseMerge(poolRaceAddr(x))
		}
		// no append/copy here: the runtime race-annotates growslice/slicecopy even
		// inside norace functions, which would make pool internals look racy
		n := len(p.items)
		if n == cap(p.items) {
			grown := make([]any, n, 2*n+8)
			for i := 0; i < n; i++ {
				grown[i] = p.items[i]
			}
			p.items = grown
		}
		p.items = p.items[:n+1]
		p.items[n] = x
	}
	simhook.Mu.Unlock()
	// a second scheduling point AFTER the object is in the pool: another task may
	// take it right now, while the putter goes on - which is when "still using
	// what was just put back" shows
	if y := simhook.Yield; y != nil {
		y(simhook.KPoolPutDone, uintptr(unsafe.Pointer(p)))
	}
}

// Get selects an item from the pool, removes it and returns it; on a miss it
// returns New() (or nil when New is nil).
//
//go:norace
func (p *Pool) Get() any {
	if y := simhook.Yield; y != nil {
		y(simhook.KPoolGet, uintptr(unsafe.Pointer(p)))
	}
	simhook.Mu.Lock()
	p.register()
	n := len(p.items)
	idx := n - 1
	if f := simhook.PoolGet; f != nil {
		idx = f(p.info, n)
		if idx >= n {
			idx = n - 1
		}
	}
	var x any
	if idx >= 0 {
		x = p.items[idx]
		for i := idx; i < n-1; i++ {
			p.items[i] = p.items[i+1]
		}
		p.items[n-1] = nil
		p.items = p.items[:n-1]
		if simhook.RaceEnabled {
			simhook.RaceAcquire(poolRaceAddr(x))
		}
	}
	simhook.Mu.Unlock()
	if x == nil && p.New != nil {
		x = p.New()
	}
	return x
}
