// Package simsync is an API-complete replacement for package sync whose
// operations announce themselves to a simulator through simhook before they
// happen. Locks wrap the real primitives so the race detector sees the real
// acquire/release edges; the simulator additionally tracks who holds what so
// that a simulated task never blocks on a real lock held by a parked task.
package simsync

import (
	"sync"
	"unsafe"

	"verifshim/simhook"
)

// Locker is sync.Locker.
type Locker = sync.Locker

// WaitGroup, Cond and Map are the real types (the library under test creates
// no goroutines, so they have no simulated behaviour of their own).
type (
	WaitGroup = sync.WaitGroup
	Cond      = sync.Cond
	Map       = sync.Map
)

func NewCond(l Locker) *Cond { return sync.NewCond(l) }

func OnceFunc(f func()) func() { return sync.OnceFunc(f) }

func OnceValue[T any](f func() T) func() T { return sync.OnceValue(f) }

func OnceValues[T1, T2 any](f func() (T1, T2)) func() (T1, T2) { return sync.OnceValues(f) }

// Mutex replaces sync.Mutex.
type Mutex struct {
	mu   sync.Mutex
	held bool // simulator-level: held by some simulated task
}

//go:norace
func (m *Mutex) simAcquire(k simhook.Kind) bool {
	y := simhook.Yield
	if y == nil {
		return false
	}
	obj := uintptr(unsafe.Pointer(m))
	y(k, obj)
	for m.held {
		simhook.Block(obj)
	}
	m.held = true
	return true
}

//go:norace
func (m *Mutex) simRelease() {
	if simhook.Yield == nil {
		m.held = false
		return
	}
	m.held = false
	simhook.Wake(uintptr(unsafe.Pointer(m)))
}

func (m *Mutex) Lock() {
	m.simAcquire(simhook.KLock)
	m.mu.Lock()
}

//go:norace
func (m *Mutex) TryLock() bool {
	if y := simhook.Yield; y != nil {
		y(simhook.KLock, uintptr(unsafe.Pointer(m)))
		if m.held {
			return false
		}
	}
	if m.mu.TryLock() {
		m.held = true
		return true
	}
	return false
}

func (m *Mutex) Unlock() {
	m.mu.Unlock()
	m.simRelease()
}

// RWMutex replaces sync.RWMutex.
type RWMutex struct {
	mu      sync.RWMutex
	writer  bool
	readers int
	// writersWaiting: as in the real RWMutex, a pending Lock blocks new readers
	// (so a recursive RLock with a writer arriving in between deadlocks)
	writersWaiting int
}

//go:norace
func (rw *RWMutex) simW() {
	y := simhook.Yield
	if y == nil {
		return
	}
	obj := uintptr(unsafe.Pointer(rw))
	y(simhook.KLock, obj)
	if rw.writer || rw.readers > 0 {
		rw.writersWaiting++
		for rw.writer || rw.readers > 0 {
			simhook.Block(obj)
		}
		rw.writersWaiting--
	}
	rw.writer = true
}

//go:norace
func (rw *RWMutex) simR() {
	y := simhook.Yield
	if y == nil {
		return
	}
	obj := uintptr(unsafe.Pointer(rw))
	y(simhook.KRLock, obj)
	for rw.writer || rw.writersWaiting > 0 {
		simhook.Block(obj)
	}
	rw.readers++
}

//go:norace
func (rw *RWMutex) simWDone() {
	if simhook.Yield == nil {
		rw.writer = false
		return
	}
	rw.writer = false
	simhook.Wake(uintptr(unsafe.Pointer(rw)))
}

//go:norace
func (rw *RWMutex) simRDone() {
	if simhook.Yield == nil {
		if rw.readers > 0 {
			rw.readers--
		}
		return
	}
	if rw.readers > 0 {
		rw.readers--
	}
	if rw.readers == 0 {
		simhook.Wake(uintptr(unsafe.Pointer(rw)))
	}
}

func (rw *RWMutex) Lock() {
	rw.simW()
	rw.mu.Lock()
}

func (rw *RWMutex) Unlock() {
	rw.mu.Unlock()
	rw.simWDone()
}

func (rw *RWMutex) RLock() {
	rw.simR()
	rw.mu.RLock()
}

func (rw *RWMutex) RUnlock() {
	rw.mu.RUnlock()
	rw.simRDone()
}

//go:norace
func (rw *RWMutex) TryLock() bool {
	if y := simhook.Yield; y != nil {
		y(simhook.KLock, uintptr(unsafe.Pointer(rw)))
		if rw.writer || rw.readers > 0 {
			return false
		}
	}
	if rw.mu.TryLock() {
		if simhook.Yield != nil {
			rw.writer = true
		}
		return true
	}
	return false
}

//go:norace
func (rw *RWMutex) TryRLock() bool {
	if y := simhook.Yield; y != nil {
		y(simhook.KRLock, uintptr(unsafe.Pointer(rw)))
		if rw.writer {
			return false
		}
	}
	if rw.mu.TryRLock() {
		if simhook.Yield != nil {
			rw.readers++
		}
		return true
	}
	return false
}

type rlocker RWMutex

func (r *rlocker) Lock()   { (*RWMutex)(r).RLock() }
func (r *rlocker) Unlock() { (*RWMutex)(r).RUnlock() }

func (rw *RWMutex) RLocker() Locker { return (*rlocker)(rw) }

// Once replaces sync.Once.
type Once struct {
	once  sync.Once
	state int // 0 idle, 1 running (by a simulated task), 2 done
}

//go:norace
func (o *Once) simEnter() (run bool) {
	y := simhook.Yield
	if y == nil {
		return false
	}
	obj := uintptr(unsafe.Pointer(o))
	y(simhook.KOnce, obj)
	for o.state == 1 {
		simhook.Block(obj)
	}
	if o.state == 0 {
		o.state = 1
		return true
	}
	return false
}

//go:norace
func (o *Once) simLeave() {
	o.state = 2
	if simhook.Wake != nil {
		simhook.Wake(uintptr(unsafe.Pointer(o)))
	}
}

func (o *Once) Do(f func()) {
	if o.simEnter() {
		defer o.simLeave()
	}
	o.once.Do(f)
}
