module verif

go 1.23

require (
	github.com/ajitpratap0/GoSQLX v0.0.0
	verifshim v0.0.0
)

replace github.com/ajitpratap0/GoSQLX => ../repo

replace verifshim => /verif/shim
