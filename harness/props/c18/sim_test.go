package c18

import (
	"os"
	"testing"
	"testing/synctest"

	"verif/props/registry"
	"verif/sim/runner"
)

// TestSimrun is the entry point of the C18 simulation binary: the runner's
// driver/worker/replay roles, with every simulated conversation executed inside
// a testing/synctest bubble (fake clock).
func TestSimrun(t *testing.T) {
	if os.Getenv("VERIF_SIMRUN") == "" {
		t.Skip("not invoked by ./check")
	}
	RunBubble = func(f func()) {
		defer func() {
			// the end-of-bubble deadlock panic must not kill the worker
			if r := recover(); r != nil {
				panic(r)
			}
		}()
		synctest.Test(t, func(*testing.T) { f() })
	}
	registry.Register("C18", New)
	runner.ChildPrefix = []string{"-test.run=^TestSimrun$", "-test.timeout=0"}
	runner.Main()
	os.Exit(0)
}
