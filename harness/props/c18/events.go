package c18

import (
	"encoding/json"
	"fmt"
	"github.com/ajitpratap0/GoSQLX/pkg/lsp"
	"os"
	"strconv"
	"strings"
	"time"
	"verif/sim/gen"

	"github.com/ajitpratap0/GoSQLX/pkg/gosqlx"
	"github.com/ajitpratap0/GoSQLX/pkg/sql/tokenizer"

	"verif/sim/tape"
)

// extra sim state used by the event generator
type simExtra struct {
	usedZero      bool
	usedHuge      bool
	wantHuge      bool // decided once per conversation (1 in 300)
	usedEmpty     bool
	lastDesc      string
	lastEditClass string
	everOpen      bool
	inited        bool
}

func (s *sim) tracef(f string, a ...any) {
	msg := fmt.Sprintf(f, a...)
	s.lastDesc = msg
	if s.trace && len(s.r.Trace) < 400 {
		s.r.Trace = append(s.r.Trace, fmt.Sprintf("t=%v #%d %s", s.now, s.sent, msg))
	}
}

// ---------------------------------------------------------------- document material

var validStmts = []string{
	"SELECT id, name FROM users WHERE id = 1;",
	"SELECT a,\n  b\nFROM t\nWHERE a > 1;",
	"INSERT INTO t (a, b) VALUES (1, 'x');",
	"UPDATE t SET a = 2 WHERE b = 'é';",
	"DELETE FROM logs WHERE created_at < 10;",
	"SELECT COUNT(*) FROM orders o JOIN users u ON o.user_id = u.id GROUP BY u.id;",
	"SELECT '😀' AS emoji, 'ключ' AS k FROM t;",
	"WITH c AS (SELECT 1 AS n) SELECT n FROM c;",
}

var badStmts = []string{
	"SELECT * FROM;",
	"SELECT a b c d FROM;",
	"INSERT INTO VALUES (1);",
	"UPDATE SET x = 1;",
	"SELECT a,\n  b\nFROM\nWHERE;",
	"DELETE users;",
	// a token that cannot start a statement, alone on its line (nothing is
	// consumed before the error: the parser has to step over it)
	"foo",
	"foo;",
	"SELEC\n  a, b\nFROM t;",
	"bar\n;",
}

var tokBad = []string{
	"SELECT 'unterminated FROM t;",
	"-- refreshed [12:30]\nSELECT a[1:2], 'unterminated FROM t;", // bracketed numbers in the snippet the error message quotes
	"SELECT arr[7:9] FROM t;\nSELECT 'unterminated",
}

var goodList, badList []string

func init() {
	// keep only candidates that behave as classified when parsed alone
	for _, q := range validStmts {
		if _, errs := gosqlx.ParseWithRecovery(q); len(errs) == 0 {
			goodList = append(goodList, q)
		}
	}
	for _, q := range badStmts {
		if _, errs := gosqlx.ParseWithRecovery(q); len(errs) == 1 {
			t, _ := tokenizer.New()
			if _, terr := t.Tokenize([]byte(q)); terr == nil {
				badList = append(badList, q)
			}
		}
	}
}

// genDoc assembles a multi-line document from statements and returns the text
// and the line ranges of its malformed statements.
func (s *sim) genDoc() (text string, bad [][2]int, tokErr bool, structured bool) {
	if s.sweep == nil && s.src.Intn(150, "c18.bigdoc") == 149 {
		if s.target > s.sent+8 {
			s.target = s.sent + 8 // every message over such a text costs tens of milliseconds
		}
		// a document of 70-200 KiB (far below the analysis limit): whatever a server
		// does differently for big texts, the diagnostics published last are still
		// those of the current one
		s.r.Faults["document-64KiB+"]++
		return gen.BigMultiline([]int{66, 90}[s.src.Intn(2, "c18.bigkib")], []int{0, 2}[s.src.Intn(2, "c18.bigbad")]), nil, false, false
	}
	switch s.src.Intn(12, "c18.doc") {
	case 0:
		return "", nil, false, true
	case 1:
		return "SELECT 1", nil, false, true
	case 2:
		return "SELECT 'é', 1\nFROM t", nil, false, true
	case 3:
		return "SELECT a\r\nFROM t\r\nWHERE a = '😀';\r\n", nil, false, true
	case 4:
		// free-form text (not SQL): diagnostics count still compared with the library
		return strings.Repeat("x y z\n", 1+s.src.Intn(5, "c18.rep")) + "é😀\t(", nil, false, false
	}
	n := 1 + s.src.Intn(5, "c18.nst")
	line := 0
	var sb strings.Builder
	for i := 0; i < n; i++ {
		var q string
		isBad := len(badList) > 0 && s.src.Intn(3, "c18.bad") == 2
		if isBad {
			q = badList[s.src.Intn(len(badList), "c18.badq")]
		} else {
			q = goodList[s.src.Intn(len(goodList), "c18.goodq")]
		}
		if s.src.Intn(4, "c18.comment") == 3 {
			sb.WriteString("-- comment é\n")
			line++
		}
		nl := strings.Count(q, "\n")
		if isBad {
			bad = append(bad, [2]int{line, line + nl})
		}
		sb.WriteString(q)
		sb.WriteString("\n")
		line += nl + 1
		if s.src.Intn(4, "c18.blank") == 3 {
			sb.WriteString("\n")
			line++
		}
	}
	if s.src.Intn(12, "c18.tokbad") == 11 {
		sb.WriteString(tokBad[s.src.Intn(len(tokBad), "c18.tokbadkind")] + "\n")
		return sb.String(), nil, true, true
	}
	return sb.String(), bad, false, true
}

// ---------------------------------------------------------------- event generation

func (s *sim) advance(d time.Duration) {
	if d > 0 {
		if RunBubble != nil {
			time.Sleep(d)
		}
		s.now += d
	}
}

func (s *sim) gap() {
	var d time.Duration
	switch s.src.Intn(12, "c18.gap") {
	case 0, 1, 2, 3, 4, 5:
		d = 50 * time.Millisecond
	case 6:
		d = 0
	case 7:
		d = time.Millisecond
	case 8:
		d = time.Second
	case 9:
		d = 10 * time.Minute
	case 10:
		d = 999 * time.Millisecond
	default:
		d = 20 * time.Millisecond
	}
	s.advance(d)
}

// safe: inside the documented rate limit whatever the limiter's window alignment
func (s *sim) safeNow() bool {
	n := 0
	for i := len(s.times) - 1; i >= 0; i-- {
		if s.now-s.times[i] > 2*time.Second {
			break
		}
		n++
	}
	return n < 50
}

func (s *sim) send(body []byte, desc string) {
	s.times = append(s.times, s.now)
	s.sent++
	// every message may arrive in any legal spelling of the header part: the
	// length with leading zeros (a fixed-width writer), no blank after the colon,
	// other header fields around it
	n := strconv.Itoa(len(body))
	switch s.src.Intn(24, "c18.framing") {
	case 20:
		s.r.Faults["frame.zero-padded-length"]++
		s.queue = append(s.queue, "Content-Length: "+strings.Repeat("0", 10-len(n))+n+"\r\n\r\n"...)
	case 21:
		s.r.Faults["frame.no-space-after-colon"]++
		s.queue = append(s.queue, "Content-Length:"+n+"\r\n\r\n"...)
	case 22:
		s.r.Faults["frame.extra-headers"]++
		s.queue = append(s.queue, "Content-Type: application/vscode-jsonrpc; charset=utf-8\r\nContent-Length: "+n+"\r\n\r\n"...)
	case 23:
		s.r.Faults["frame.extra-headers"]++
		s.queue = append(s.queue, "Content-Length: "+n+"\r\nContent-Type: application/vscode-jsonrpc; charset=utf-8\r\n\r\n"...)
	default:
		s.queue = append(s.queue, "Content-Length: "+n+"\r\n\r\n"...)
	}
	s.queue = append(s.queue, body...)
	s.tracef("%s", desc)
}

func (s *sim) newID() any {
	s.nextID++
	if !s.usedZero && s.src.Intn(30, "c18.idzero") == 29 {
		s.usedZero = true
		return 0 // a legal id that is "falsy" in many languages
	}
	if !s.usedEmpty && s.src.Intn(40, "c18.idempty") == 39 {
		s.usedEmpty = true
		return "" // the empty string is a legal id too
	}
	switch s.src.Intn(5, "c18.idkind") {
	case 1:
		return "req-" + strconv.Itoa(s.nextID)
	case 2:
		return -s.nextID
	case 3:
		return 2147483000 + s.nextID
	case 4:
		return "é" + strconv.Itoa(s.nextID)
	}
	return s.nextID
}

func mustJSON(v any) []byte {
	b, err := json.Marshal(v)
	if err != nil {
		panic(err)
	}
	return b
}

func (s *sim) request(method string, params any) {
	id := s.newID()
	m := map[string]any{"jsonrpc": "2.0", "id": id, "method": method}
	if params != nil {
		m["params"] = params
	}
	s.pend = append(s.pend, pending{id: canonID(mustJSON(id)), method: method})
	if !s.safeNow() {
		s.r.Faults["overload-message"]++
	}
	s.send(mustJSON(m), fmt.Sprintf("request id=%s %s %s", mustJSON(id), method, clip(string(mustJSON(params)), 160)))
}

func (s *sim) notify(method string, params any) {
	m := map[string]any{"jsonrpc": "2.0", "method": method}
	if params != nil {
		m["params"] = params
	}
	s.send(mustJSON(m), fmt.Sprintf("notification %s %s", method, clip(string(mustJSON(params)), 200)))
}

func (s *sim) uri() string { return s.uris[s.src.Intn(len(s.uris), "c18.uri")] }

func (s *sim) anyPos(uri string) map[string]any {
	lines, width := 3, 10
	if m := s.model[uri]; m != nil {
		lines = lineCount(m.text)
		width = len(m.text)/lines + 3
	}
	l := s.src.Intn(lines+3, "c18.line") - 1
	c := s.src.Intn(width+4, "c18.char") - 1
	if s.src.Intn(20, "c18.hugepos") == 19 {
		l, c = []int{1 << 30, -(1 << 30), 0}[s.src.Intn(3, "c18.hl")], []int{1 << 30, -5, 1 << 20}[s.src.Intn(3, "c18.hc")]
	}
	return map[string]any{"line": l, "character": c}
}

func (s *sim) nextEvent() {
	s.processed = s.sent
	if s.exited || s.sent >= s.target {
		return // queue stays empty → EOF
	}
	if s.sweep != nil {
		s.sweepEvent()
		return
	}
	// crash of the client at an arbitrary byte: truncated frame, then EOF
	if s.sent > 3 && s.src.Intn(60, "c18.crash") == 59 {
		body := mustJSON(map[string]any{"jsonrpc": "2.0", "id": 999999, "method": "textDocument/hover", "params": map[string]any{"textDocument": map[string]any{"uri": s.uris[0]}, "position": map[string]any{"line": 0, "character": 0}}})
		f := frame(body)
		cut := 1 + s.src.Intn(len(f)-1, "c18.cut")
		s.queue = append(s.queue, f[:cut]...)
		s.sent++
		s.target = s.sent
		s.desynced = true
		s.r.Faults["eof-mid-frame"]++
		s.tracef("client crashes: %d of %d bytes of a frame, then EOF", cut, len(f))
		return
	}
	s.gap()
	if !s.inited {
		s.inited = true
		if s.src.Intn(10, "c18.skipinit") != 9 {
			s.request("initialize", map[string]any{"processId": 1, "rootUri": "file:///", "capabilities": map[string]any{}})
			return
		}
	}
	burst := 1
	if s.src.Intn(40, "c18.burst") == 39 && !s.usedHuge {
		burst = 60 + s.src.Intn(120, "c18.burstlen")
		s.r.Faults["overload-burst"]++
	}
	if burst == 1 && s.src.Intn(4, "c18.batch") == 3 {
		// a client that writes a few messages back to back (inside the rate limit):
		// the server finds the next one already waiting while it handles the first
		burst = 2 + s.src.Intn(2, "c18.batchlen")
		s.r.Faults["back-to-back-batch"]++
		for b := 0; b < burst; b++ {
			s.oneMessage(false)
			if s.exited || s.desynced || s.sent >= s.target {
				break
			}
		}
		return
	}
	for b := 0; b < burst; b++ {
		s.oneMessage(burst > 1)
		if s.exited || s.desynced || (s.usedHuge && s.sent >= s.target) {
			break
		}
	}
}

// boundaryFrame: a request whose body is exactly as long as the documented
// maximum message size (lsp.MaxContentLength), or one byte shorter, is a legal
// message: it is answered like any other and framing stays intact.
func (s *sim) boundaryFrame() {
	size := lsp.MaxContentLength - s.src.Intn(2, "c18.boundary")
	id := s.newID()
	uri := s.uri()
	m := map[string]any{"jsonrpc": "2.0", "id": id, "method": "textDocument/hover",
		"params": map[string]any{"textDocument": map[string]any{"uri": uri}, "position": map[string]any{"line": 0, "character": 0}}, "pad": ""}
	base := len(mustJSON(m))
	m["pad"] = strings.Repeat("x", size-base)
	body := mustJSON(m)
	s.pend = append(s.pend, pending{id: canonID(mustJSON(id)), method: "textDocument/hover"})
	if !s.safeNow() {
		s.r.Faults["overload-message"]++
	}
	s.r.Faults[fmt.Sprintf("frame.body-of-max-size-minus-%d", lsp.MaxContentLength-len(body))]++
	s.send(body, fmt.Sprintf("request id=%s textDocument/hover padded to %d bytes (maximum message size %d)", mustJSON(id), len(body), lsp.MaxContentLength))
}

// hugeDocument: a document larger than the documented 5 MiB analysis limit
// (inside the 10 MiB frame limit) is still opened and mirrored; the next edit
// shrinks it back to two lines, after which everything must work as usual.
func (s *sim) hugeDocument() {
	uri := s.uri()
	text := strings.Repeat("SELECT 1;\n", (5*1024*1024)/10+2)
	safe := s.safeNow()
	if !safe {
		// under overload the shrinking edit below could be dropped, and every later
		// didSave would make the server analyse megabytes (minutes of real time)
		s.usedHuge = false
		return
	}
	s.notify("textDocument/didOpen", map[string]any{"textDocument": map[string]any{"uri": uri, "languageId": "sql", "version": 1, "text": text}})
	s.r.Faults["document-over-5MiB"]++
	s.everOpen = true
	s.lastEditClass = "open-over-5MiB"
	if !safe {
		s.model[uri] = &mdoc{known: false, maybe: true}
		if s.target > s.sent+3 {
			s.target = s.sent + 3
		}
		return
	}
	s.model[uri] = &mdoc{text: text, known: true, version: 1, pubSafe: true}
	s.advance(50 * time.Millisecond)
	lines := lineCount(text)
	res, ok, _ := applyLSP(text, 1, 0, lines+3, 0, "SELECT FROM")
	m := s.model[uri]
	m.version = 2
	if ok {
		m.text = res
	} else {
		m.known = false
	}
	s.notify("textDocument/didChange", map[string]any{"textDocument": map[string]any{"uri": uri, "version": 2},
		"contentChanges": []any{map[string]any{"range": map[string]any{"start": map[string]any{"line": 1, "character": 0}, "end": map[string]any{"line": lines + 3, "character": 0}}, "text": "SELECT FROM"}}})
	s.lastEditClass = "shrink-after-over-5MiB"
	// a conversation that goes on for long over a multi-megabyte document only
	// burns time (every edit is linear in the document on both sides): a few more
	// messages, then the end
	if s.target > s.sent+6 {
		s.target = s.sent + 6
	}
	s.lastNote.uri, s.lastNote.kind, s.lastNote.safe, s.lastNote.version = uri, "change", s.safeNow(), 2
}

func (s *sim) oneMessage(inBurst bool) {
	if s.wantHuge && !s.usedHuge && !inBurst && s.sent >= 3 {
		s.usedHuge = true
		if k := s.src.Intn(2, "c18.hugekind"); (k == 1 || os.Getenv("VERIF_C18_DEBUG_HUGE") == "frame") && os.Getenv("VERIF_C18_DEBUG_HUGE") != "doc" {
			s.boundaryFrame()
		} else {
			s.hugeDocument()
		}
		return
	}
	k := s.src.Intn(100, "c18.kind")
	switch {
	case k < 14:
		s.didOpen()
	case k < 44:
		s.didChange()
	case k < 50:
		s.didClose()
	case k < 55:
		s.didSave()
	case k < 85:
		s.someRequest()
	case k < 88:
		s.notify("initialized", map[string]any{})
	case k < 91:
		m := []string{"workspace/unknownMethod0", "workspace/unknownMethod1", "$/unsupportedRequest", "$/setTrace", "textDocument/unknown", "shutdownn"}[s.src.Intn(6, "c18.unk")]
		s.request(m, map[string]any{"x": 1})
	case k < 93:
		s.notify("$/unknownNotification", map[string]any{"x": 1})
	case k < 97:
		s.malformedBody()
	case k < 99:
		if !inBurst {
			s.badFrame()
		}
	default:
		if s.sent > 8 && !inBurst {
			s.request("shutdown", nil)
			// between shutdown and exit the server still has to answer what it is asked
			for i := s.src.Intn(4, "c18.aftershutdown"); i > 0; i-- {
				switch s.src.Intn(6, "c18.aftershutdownkind") {
				case 3:
					s.didSave()
					s.r.Faults["notification-after-shutdown"]++
				case 4:
					s.notify("$/unknownNotification", map[string]any{"x": 1})
					s.r.Faults["notification-after-shutdown"]++
				case 5:
					// whether a server still applies edits after shutdown is its own
					// business: the documents touched are not compared any more, but a
					// notification never gets a response
					s.didChange()
					for _, m := range s.model {
						m.known = false
					}
					s.r.Faults["notification-after-shutdown"]++
				default:
					s.someRequest()
					s.r.Faults["request-after-shutdown"]++
				}
			}
			if s.src.Intn(6, "c18.reinit") == 5 {
				s.request("initialize", map[string]any{"processId": 1, "rootUri": "file:///", "capabilities": map[string]any{}})
			}
			s.notify("exit", nil)
			s.exited = true
		}
	}
}

func (s *sim) didOpen() {
	uri := s.uri()
	text, bad, tokErr, structured := s.genDoc()
	safe := s.safeNow()
	v := 1 + s.src.Intn(3, "c18.ver")
	s.notify("textDocument/didOpen", map[string]any{"textDocument": map[string]any{"uri": uri, "languageId": "sql", "version": v, "text": text}})
	if safe {
		s.model[uri] = &mdoc{text: text, known: true, version: v, structured: structured, badRanges: bad, tokErr: tokErr, pubSafe: true}
	} else if m := s.model[uri]; m != nil {
		m.known = false
		m.maybe = true
	} else {
		s.model[uri] = &mdoc{known: false, maybe: true}
	}
	s.everOpen = true
	s.lastEditClass = "open"
	s.lastNote.uri, s.lastNote.kind, s.lastNote.safe, s.lastNote.version = uri, "open", safe, v
}

func (s *sim) didClose() {
	uri := s.uri()
	safe := s.safeNow()
	s.notify("textDocument/didClose", map[string]any{"textDocument": map[string]any{"uri": uri}})
	if safe {
		delete(s.model, uri)
		s.lastNote.uri, s.lastNote.kind, s.lastNote.safe = uri, "close", true
	} else if m := s.model[uri]; m != nil {
		m.known = false
		m.maybe = true
	}
	s.lastEditClass = "close"
}

func (s *sim) didSave() {
	uri := s.uri()
	p := map[string]any{"textDocument": map[string]any{"uri": uri}}
	if m := s.model[uri]; m != nil && m.known && s.src.Intn(2, "c18.savetext") == 1 {
		p["text"] = m.text // a correct client sends the document's text
	}
	s.notify("textDocument/didSave", p)
	s.lastEditClass = "save"
}

func (s *sim) didChange() {
	uri := s.uri()
	m := s.model[uri]
	safe := s.safeNow()
	v := 2
	if m != nil {
		m.version++
		v = m.version
	}
	// the mirror must follow the edits whatever the version numbers are: some
	// clients repeat, lower, zero or omit them
	var vAny any = v
	switch s.src.Intn(12, "c18.verfault") {
	case 8:
		v = v - 1 - s.src.Intn(3, "c18.verlower") // lower than (or equal to) the previous one
		vAny = v
		s.r.Faults["version.non-increasing"]++
	case 9:
		v = 0
		vAny = 0
		s.r.Faults["version.zero"]++
	case 10:
		v = 0
		vAny = nil // "version": null
		s.r.Faults["version.null"]++
	case 11:
		v = 0
		vAny = "omit"
		s.r.Faults["version.omitted"]++
	}
	if m != nil {
		m.version = v
	}
	nch := 1
	if s.src.Intn(5, "c18.multichange") == 4 {
		nch = 2 + s.src.Intn(2, "c18.nch")
	}
	if m != nil && s.src.Intn(40, "c18.nochange") == 39 {
		nch = 0 // an empty list of changes: legal, the text stays as it is
		s.r.Faults["change.empty-list"]++
	}
	changes := []any{}
	class := ""
	for i := 0; i < nch; i++ {
		if s.src.Intn(5, "c18.full") == 4 || m == nil {
			text, bad, tokErr, structured := s.genDoc()
			changes = append(changes, map[string]any{"text": text})
			if m != nil {
				m.text, m.known, m.structured, m.badRanges, m.tokErr = text, !m.maybe, structured, bad, tokErr
			}
			class += "full "
			continue
		}
		// incremental edit with an arbitrary range
		lines := lineCount(m.text)
		width := 12
		if m.known {
			width = len(m.text)/lines + 4
		}
		pick := func(lbl string) (int, int) {
			switch s.src.Intn(10, "c18.poskind"+lbl) {
			case 0:
				return s.src.Intn(lines+3, "c18.l") - 1, s.src.Intn(width+3, "c18.c") - 1 // anything incl. negative / past end
			case 1:
				return lines + s.src.Intn(3, "c18.lpast"), s.src.Intn(4, "c18.c") // line past the end
			case 2:
				return s.src.Intn(lines, "c18.l"), width + 5 + s.src.Intn(50, "c18.cpast") // char past line end
			default:
				return s.src.Intn(lines, "c18.l"), s.src.Intn(width, "c18.c") // mostly in range
			}
		}
		sl, sc := pick("s")
		el, ec := pick("e")
		if s.src.Intn(4, "c18.order") != 3 && (el < sl || (el == sl && ec < sc)) {
			sl, sc, el, ec = el, ec, sl, sc // mostly ordered
		}
		if s.src.Intn(3, "c18.point") == 2 {
			el, ec = sl, sc
		}
		nt := []string{"", "x", "é", "😀", "\n", "ab\ncd", " -- c\r\n", "SELECT 1;"}[s.src.Intn(8, "c18.newtext")]
		ch := map[string]any{"range": map[string]any{"start": map[string]any{"line": sl, "character": sc}, "end": map[string]any{"line": el, "character": ec}}, "text": nt}
		if m.known && s.src.Intn(2, "c18.rangelen") == 1 {
			// deprecated but still sent by clients: the length of the replaced range
			// in UTF-16 code units. A correct client sends the true length; the
			// range remains authoritative.
			if so, ok1, _ := lspOffset(m.text, sl, sc); ok1 {
				if eo, ok2, _ := lspOffset(m.text, el, ec); ok2 && eo >= so {
					ch["rangeLength"] = utf16Len(m.text[so:eo])
					s.r.Faults["change.with-rangeLength"]++
				}
			}
		}
		changes = append(changes, ch)
		if m.known {
			res, ok, c := applyLSP(m.text, sl, sc, el, ec, nt)
			class += c + " "
			s.r.Probes["edit:"+c]++
			if ok {
				m.text = res
			} else {
				m.known = false
			}
		}
		m.structured = false
	}
	td := map[string]any{"uri": uri, "version": vAny}
	if vAny == "omit" {
		delete(td, "version")
	}
	s.notify("textDocument/didChange", map[string]any{"textDocument": td, "contentChanges": changes})
	if m != nil && !safe {
		m.known = false
	}
	if m != nil {
		m.pubSafe = safe
	}
	s.lastEditClass = strings.TrimSpace(class)
	if m != nil {
		s.lastNote.uri, s.lastNote.kind, s.lastNote.safe, s.lastNote.version = uri, "change", safe, v
	}
}

func (s *sim) someRequest() {
	uri := s.uri()
	if s.src.Intn(8, "c18.unopened") == 7 {
		uri = "file:///never-opened.sql"
	}
	td := map[string]any{"uri": uri}
	switch s.src.Intn(7, "c18.req") {
	case 0:
		s.request("textDocument/hover", map[string]any{"textDocument": td, "position": s.anyPos(uri)})
	case 1:
		s.request("textDocument/completion", map[string]any{"textDocument": td, "position": s.anyPos(uri)})
	case 2:
		opts := map[string]any{"tabSize": []int{2, 4, 0, -1, 1 << 20}[s.src.Intn(5, "c18.tab")], "insertSpaces": s.src.Intn(2, "c18.spaces") == 1}
		s.request("textDocument/formatting", map[string]any{"textDocument": td, "options": opts})
	case 3:
		s.request("textDocument/documentSymbol", map[string]any{"textDocument": td})
	case 4:
		s.request("textDocument/signatureHelp", map[string]any{"textDocument": td, "position": s.anyPos(uri)})
	case 5:
		rng := map[string]any{"start": s.anyPos(uri), "end": s.anyPos(uri)}
		diag := map[string]any{"range": rng, "message": "expected FROM", "code": "E2002", "source": "gosqlx"}
		s.request("textDocument/codeAction", map[string]any{"textDocument": td, "range": rng, "context": map[string]any{"diagnostics": []any{diag}}})
	default:
		// params of the wrong shape
		bad := []any{nil, 5, "str", []any{1, 2}, map[string]any{"textDocument": 7}, map[string]any{"textDocument": td, "position": "nowhere"}, map[string]any{"textDocument": td, "position": map[string]any{"line": "x"}}}
		m := []string{"textDocument/hover", "textDocument/completion", "textDocument/formatting", "textDocument/documentSymbol", "textDocument/signatureHelp", "textDocument/codeAction", "initialize"}[s.src.Intn(7, "c18.badm")]
		s.request(m, bad[s.src.Intn(len(bad), "c18.badp")])
		s.r.Faults["request-with-wrong-shape-params"]++
	}
}

// malformedBody sends a correctly framed body that is not a well-formed request.
func (s *sim) malformedBody() {
	s.nextID++
	id := 700000 + s.nextID
	var body string
	switch s.src.Intn(8, "c18.mal") {
	case 0:
		body = `{"jsonrpc":"2.0","id":` + strconv.Itoa(id) + `,"method":"textDocument/hover","params":{`
	case 1:
		body = `[1,2,3]`
	case 2:
		body = `"just a string"`
	case 3:
		body = `{"jsonrpc":"2.0","id":` + strconv.Itoa(id) + `,"method":5}`
	case 4:
		body = `{"jsonrpc":"2.0","id":` + strconv.Itoa(id) + `}`
	case 5:
		body = `{"id":` + strconv.Itoa(id) + `,"method":"textDocument/hover"}`
	case 6:
		body = `x`
	default:
		body = `{"jsonrpc":"2.0","method":"textDocument/didChange","params":"garbage"}`
	}
	s.pend = append(s.pend, pending{id: strconv.Itoa(id), method: "malformed", maybe: true})
	s.r.Faults["malformed-body"]++
	s.send([]byte(body), "malformed body "+body)
}

// badFrame injects a transport-level fault; framing may be desynchronised
// afterwards, so only survival and output framing stay checked.
func (s *sim) badFrame() {
	body := mustJSON(map[string]any{"jsonrpc": "2.0", "method": "initialized", "params": map[string]any{}})
	var raw string
	kind := s.src.Intn(7, "c18.badframe")
	switch kind {
	case 0: // extra headers are legal
		raw = "Content-Type: application/vscode-jsonrpc; charset=utf-8\r\nContent-Length: " + strconv.Itoa(len(body)) + "\r\nX-Other: 1\r\n\r\n" + string(body)
		s.queue = append(s.queue, raw...)
		s.times = append(s.times, s.now)
		s.sent++
		s.r.Faults["frame.extra-headers"]++
		s.tracef("frame with extra headers (legal)")
		return
	case 1:
		raw = "\r\n" + string(body)
		s.r.Faults["frame.missing-content-length"]++
	case 2:
		raw = "Content-Length: abc\r\n\r\n" + string(body)
		s.r.Faults["frame.garbage-content-length"]++
	case 3:
		raw = "Content-Length: -5\r\n\r\n" + string(body)
		s.r.Faults["frame.negative-content-length"]++
	case 4:
		raw = "Content-Length: 99999999999\r\n\r\n" + string(body)
		s.r.Faults["frame.oversized-content-length"]++
	case 5:
		raw = "Content-Length: 0\r\n\r\n"
		s.r.Faults["frame.zero-content-length"]++
	default:
		raw = "Content-Length: " + strconv.Itoa(len(body)+7) + "\r\n\r\n" + string(body)
		s.r.Faults["frame.length-larger-than-body"]++
	}
	s.queue = append(s.queue, raw...)
	s.times = append(s.times, s.now)
	s.sent++
	s.desynced = true
	// bias: a desynchronising fault ends the checked part of the history, so stop soon
	if s.target > s.sent+5 {
		s.target = s.sent + 5
	}
	s.tracef("bad frame: %q", clip(raw, 60))
}

// ---------------------------------------------------------------- exhaustive range sweep

type sweepState struct {
	doc       string
	positions [][2]int
	i, j      int
	phase     int
	done      int
	opened    bool
}

var sweepDocs = []string{
	"ab\ncd",
	"SELECT 'é', 1\nFROM t",
	"a😀b\nxy\n",
	"ab\r\ncd\r\n",
	"",
	"é",
}

func newSweep(src *tape.Source) *sweepState {
	sw := &sweepState{doc: sweepDocs[src.Intn(len(sweepDocs), "c18.sweepdoc")]}
	lines := strings.Split(sw.doc, "\n")
	maxw := 0
	for _, l := range lines {
		if len(l) > maxw {
			maxw = len(l)
		}
	}
	for l := -1; l <= len(lines)+1; l++ {
		for c := -1; c <= maxw+2; c++ {
			sw.positions = append(sw.positions, [2]int{l, c})
		}
	}
	return sw
}

// sweepEvent: open once; then for every (start,end) pair: full-text reset,
// incremental edit with that pair; the mirror is checked after each.
func (s *sim) sweepEvent() {
	sw := s.sweep
	uri := s.uris[0]
	s.advance(50 * time.Millisecond)
	if !sw.opened {
		sw.opened = true
		s.notify("textDocument/didOpen", map[string]any{"textDocument": map[string]any{"uri": uri, "languageId": "sql", "version": 1, "text": sw.doc}})
		s.model[uri] = &mdoc{text: sw.doc, known: true, version: 1}
		s.everOpen = true
		return
	}
	if sw.i >= len(sw.positions) {
		s.target = s.sent // done → EOF
		return
	}
	m := s.model[uri]
	m.version++
	if sw.phase == 0 {
		sw.phase = 1
		s.notify("textDocument/didChange", map[string]any{"textDocument": map[string]any{"uri": uri, "version": m.version}, "contentChanges": []any{map[string]any{"text": sw.doc}}})
		m.text, m.known = sw.doc, true
		s.lastEditClass = "full"
		return
	}
	sw.phase = 0
	a, b := sw.positions[sw.i], sw.positions[sw.j]
	sw.j++
	if sw.j >= len(sw.positions) {
		sw.j = 0
		sw.i++
	}
	sw.done++
	res, ok, c := applyLSP(m.text, a[0], a[1], b[0], b[1], "X")
	s.r.Probes["edit:"+c]++
	s.lastEditClass = c
	if ok {
		m.text = res
	} else {
		m.known = false
	}
	s.notify("textDocument/didChange", map[string]any{"textDocument": map[string]any{"uri": uri, "version": m.version}, "contentChanges": []any{map[string]any{"range": map[string]any{"start": map[string]any{"line": a[0], "character": a[1]}, "end": map[string]any{"line": b[0], "character": b[1]}}, "text": "X"}}})
}

func utf16Len(s string) int {
	n := 0
	for _, r := range s {
		if r >= 0x10000 {
			n += 2
		} else {
			n++
		}
	}
	return n
}
