// Package c18: the language server never dies, answers each request once and
// mirrors the document. The real lsp.Server runs against a simulated client,
// transport and clock. The simulation is reader-driven: the server's call to
// Read IS the scheduling point – on the server's own stack the simulator parses
// what the server wrote, checks the oracles, compares the mirrored documents
// with the reference model, draws the next event and hands out the next chunk.
// time.Now is the fake clock of a testing/synctest bubble (installed by the test
// binary through RunBubble); it advances only when the simulator sleeps.
package c18

import (
	"bytes"
	"encoding/json"
	"fmt"
	"io"
	"os"
	"runtime/debug"
	"sort"
	"strconv"
	"strings"
	"time"
	"unicode/utf8"

	"github.com/ajitpratap0/GoSQLX/pkg/gosqlx"
	"github.com/ajitpratap0/GoSQLX/pkg/lsp"
	"github.com/ajitpratap0/GoSQLX/pkg/sql/tokenizer"

	goerrors "github.com/ajitpratap0/GoSQLX/pkg/errors"

	"verif/sim/core"
	"verif/sim/tape"
)

// RunBubble runs f inside a fake-clock bubble; set by the test binary to a
// wrapper around synctest.Test. Without it (plain binary) f runs on the real
// clock and sleeps are skipped.
var RunBubble func(f func())

type P struct{ env *core.Env }

func New() core.Property { return &P{} }

func (p *P) ID() string    { return "C18" }
func (p *P) Level() string { return "exploration" }
func (p *P) Rule() string {
	return "one case = one conversation with the real server: 10-150 framed messages over 1-3 URIs (initialize, open/change/save/close with full and incremental edits whose ranges are in range, past the end, inverted or negative, over ASCII, BMP, astral and CRLF text; every request kind with arbitrary positions; unknown methods; malformed JSON; bad headers) + transport faults (chunking, EOF at an arbitrary byte, writer error) + fake-clock gaps (0 … 10 min, bursts beyond the documented 100 requests/s); plus an exhaustive stratum: ALL (start,end) position pairs over small documents. non-trivial = at least one document was open and at least 5 messages were processed before any desynchronising fault; distinct = tape hash"
}
func (p *P) Runs(tier string) int {
	if tier == "thorough" {
		return 1500000
	}
	return 20000
}
func (p *P) Init(env *core.Env) error { p.env = env; return nil }
func (p *P) Assumptions() []string {
	return []string{
		"the simulated client is a correct client except where a fault is injected on purpose: didSave text equals the document, versions increase",
		"reference model = LSP position rules: UTF-16 columns, a character past the end of a line clamps to the line end, a line past the last line clamps to the document end; after an edit the protocol does not define (negative or inverted range, position inside a surrogate pair, clamping on a CRLF line, lone CR) the model marks that document unknown until the next full-text change or re-open",
		"a message counts as inside the rate limit (must be processed) when at most 50 messages were sent in the preceding 2 simulated seconds; otherwise notifications may be dropped (document marked unknown) but requests must still be answered exactly once",
		"well-formed request = JSON object with jsonrpc, string method and non-null id; other bodies may be answered zero or one time",
		"after a transport fault that desynchronises framing (bad Content-Length, writer error) only survival and output framing stay checked",
	}
}
func (p *P) Components() map[string]string {
	return map[string]string{
		"lsp.Server, Handler, DocumentManager, recovery parser behind diagnostics": "real code (sync/atomic imports rewritten to the shim, hooks idle)",
		"client":    "stub (generated conversation)",
		"transport": "stub (SimReader: chunking/EOF/corrupt frames; SimWriter: error at n-th write)",
		"clock":     "stub (testing/synctest fake clock; advances only when the simulator sleeps)",
	}
}

// ---------------------------------------------------------------- model

type mdoc struct {
	text  string
	known bool
	// maybe: an open or close notification was sent during overload and may have
	// been dropped, so even the existence of the server's copy is unknown until
	// the next open/close inside the rate limit
	maybe   bool
	version int
	// structure: line ranges of malformed statements (valid until an incremental edit)
	structured bool
	badRanges  [][2]int
	tokErr     bool
	// pubSafe: the last notification that changed this document was inside the
	// rate limit, so the server must have published diagnostics for its text
	pubSafe bool
	// judged: the (text, publication) pair already compared (the oracle re-parses
	// the text only when one of them changed)
	judgedText string
	judgedPub  *diagNote
}

type pending struct {
	id     string // canonical JSON of the id
	method string
	maybe  bool // not a well-formed request: zero or one response
}

type sim struct {
	src   *tape.Source
	r     *core.Result
	trace bool
	srv   *lsp.Server

	out       bytes.Buffer
	outOff    int
	writes    int
	failWrite int // fail at this write index (0 = never)
	wfailed   bool

	queue     []byte
	sent      int // messages sent
	target    int
	times     []time.Duration // fake time of each message sent
	start     time.Time
	now       time.Duration
	eof       bool
	eofReads  int
	desynced  bool
	exited    bool
	processed int

	model    map[string]*mdoc
	pend     []pending
	lastPub  map[string]*diagNote // per uri: the publishDiagnostics seen last
	lastNote struct {
		uri     string
		kind    string // open|change|close|save
		safe    bool
		version int
	}
	sweep  *sweepState
	nextID int
	uris   []string
	simExtra
}

type abortRun struct{ why string }

func (p *P) Run(src *tape.Source, trace bool) *core.Result {
	r := core.NewResult()
	body := func() { p.runOne(r, src, trace) }
	if RunBubble != nil {
		RunBubble(body)
	} else {
		body()
	}
	r.LogHash = src.Hash() ^ uint64(r.Steps)
	return r
}

func (p *P) runOne(r *core.Result, src *tape.Source, trace bool) {
	s := &sim{src: src, r: r, trace: trace, model: map[string]*mdoc{}, start: time.Now()}
	s.uris = []string{"file:///a.sql", "file:///dir/b%20c.sql", "untitled:Untitled-1"}[:1+src.Intn(3, "c18.nuris")]
	if src.Intn(40, "c18.sweep") == 39 {
		s.sweep = newSweep(src)
		s.target = 1 << 30
	} else {
		s.target = 10 + src.Intn(141, "c18.len")
	}
	s.wantHuge = s.sweep == nil && src.Intn(300, "c18.hugedoc") == 299
	if os.Getenv("VERIF_C18_DEBUG_HUGE") != "" && s.sweep == nil {
		s.wantHuge = true // profiling aid only
	}
	if src.Intn(25, "c18.wfail") == 24 {
		s.failWrite = 1 + src.Intn(40, "c18.wfailat")
	}
	s.srv = lsp.NewServer(s, (*simWriter)(s), nil)
	var runErr error
	returned := false
	func() {
		defer func() {
			if rec := recover(); rec != nil {
				if a, ok := rec.(abortRun); ok {
					if a.why != "" {
						r.Fail("survival", "does-not-stop-at-EOF", a.why)
					}
					return
				}
				site := panicSite(string(debug.Stack()))
				r.Fail("survival", "panic@"+site, fmt.Sprintf("the server panicked (%v) at %s after %d messages; last message: %s\n%s", rec, site, s.sent, s.lastDesc, clipStack(string(debug.Stack()))))
			}
		}()
		runErr = s.srv.Run()
		returned = true
	}()
	if returned {
		if runErr != nil {
			r.Fail("survival", "run-returned-error", fmt.Sprintf("Run returned %v", runErr))
		}
		if !s.eof && !s.exited {
			r.Fail("survival", "run-returned-early", fmt.Sprintf("Run returned after %d messages without exit or EOF; last message: %s", s.sent, s.lastDesc))
		}
		// the writes of the last message still need checking
		if !s.desynced && !s.wfailed {
			s.checkOutput(true)
		}
	}
	r.Steps = int64(s.sent)
	r.SimTimeMs = int64(s.now / time.Millisecond)
	r.Nontrivial = s.processed >= 5 && s.everOpen
	if s.sweep != nil {
		r.Probes["exhaustive-range-sweep-run"]++
		r.Probes["sweep-position-pairs-checked"] += s.sweep.done
		if s.sweep.i >= len(s.sweep.positions) {
			r.Probes["sweep-enumerated-all-pairs-of-its-document"]++
		}
	}
}

func panicSite(stack string) string {
	for _, l := range strings.Split(stack, "\n") {
		l = strings.TrimSpace(l)
		if i := strings.Index(l, "/repo/pkg/"); i >= 0 {
			l = l[i+6:]
			if j := strings.Index(l, " "); j >= 0 {
				l = l[:j]
			}
			return l
		}
	}
	return "?"
}

func clipStack(s string) string {
	var keep []string
	for _, l := range strings.Split(s, "\n") {
		if strings.Contains(l, "/repo/pkg/") {
			keep = append(keep, strings.TrimSpace(l))
		}
		if len(keep) >= 6 {
			break
		}
	}
	return strings.Join(keep, " <- ")
}

// ---------------------------------------------------------------- transport

type simWriter sim

func (w *simWriter) Write(p []byte) (int, error) {
	s := (*sim)(w)
	s.writes++
	if s.failWrite > 0 && s.writes >= s.failWrite {
		if !s.wfailed {
			s.wfailed = true
			s.r.Faults["writer-error"]++
		}
		return 0, io.ErrClosedPipe
	}
	s.out.Write(p)
	return len(p), nil
}

// Read is the scheduling point of the simulation.
func (s *sim) Read(p []byte) (int, error) {
	if len(s.queue) == 0 {
		if s.eof {
			s.eofReads++
			if s.eofReads > 8 {
				panic(abortRun{fmt.Sprintf("the reader returned EOF %d times and Run still asks for input", s.eofReads)})
			}
			return 0, io.EOF
		}
		// quiescent: everything sent so far has been consumed
		if !s.desynced && !s.wfailed {
			s.checkMirror() // first: a diverged document is not judged for diagnostics
			s.checkOutput(false)
		}
		if len(s.r.Violations) > 0 && s.sweep == nil {
			// stop the conversation at the first violation: shorter traces, and
			// later checks would only restate it
			panic(abortRun{})
		}
		s.nextEvent()
		if len(s.queue) == 0 {
			s.eof = true
			s.r.Faults["eof"]++
			return 0, io.EOF
		}
	}
	n := len(s.queue)
	if n > len(p) {
		n = len(p)
	}
	if len(s.queue) > 1<<20 {
		// a multi-megabyte frame: hand it over in large pieces (byte-wise chunking
		// of 5 MiB would only burn time)
		copy(p, s.queue[:n])
		s.queue = s.queue[n:]
		return n, nil
	}
	switch s.src.Intn(6, "c18.chunk") {
	case 1:
		n = 1
	case 2:
		if k := 1 + s.src.Intn(16, "c18.chunklen"); k < n {
			n = k
		}
		s.r.Faults["chunk.small"]++
	case 3:
		if k := 1 + s.src.Intn(n, "c18.chunkany"); k < n {
			n = k
		}
	}
	if n == 1 {
		s.r.Faults["chunk.1byte"]++
	}
	copy(p, s.queue[:n])
	s.queue = s.queue[n:]
	return n, nil
}

func frame(body []byte) []byte {
	return append([]byte("Content-Length: "+strconv.Itoa(len(body))+"\r\n\r\n"), body...)
}

// ---------------------------------------------------------------- output checking

type outMsg struct {
	ID     json.RawMessage `json:"id"`
	Method *string         `json:"method"`
	Result json.RawMessage `json:"result"`
	Error  json.RawMessage `json:"error"`
	Params json.RawMessage `json:"params"`
}

func canonID(raw json.RawMessage) string {
	var v any
	if json.Unmarshal(raw, &v) != nil {
		return string(raw)
	}
	b, _ := json.Marshal(v)
	return string(b)
}

type diagNote struct {
	URI         string `json:"uri"`
	Version     *int   `json:"version"`
	Diagnostics []struct {
		Range struct {
			Start struct{ Line, Character int } `json:"start"`
			End   struct{ Line, Character int } `json:"end"`
		} `json:"range"`
		Message string `json:"message"`
	} `json:"diagnostics"`
}

func (s *sim) checkOutput(final bool) {
	data := s.out.Bytes()[s.outOff:]
	var diags []diagNote
	for len(data) > 0 {
		// strict framing: header, CRLF CRLF, exactly N bytes of JSON
		const h = "Content-Length: "
		if !bytes.HasPrefix(data, []byte(h)) {
			s.r.Fail("framing", "bad-header", fmt.Sprintf("outgoing stream does not continue with a Content-Length header: %q", clip(string(data), 80)))
			s.desynced = true
			return
		}
		i := bytes.Index(data, []byte("\r\n\r\n"))
		if i < 0 {
			s.r.Fail("framing", "unterminated-header", fmt.Sprintf("outgoing header not terminated: %q", clip(string(data), 80)))
			s.desynced = true
			return
		}
		n, err := strconv.Atoi(string(data[len(h):i]))
		if err != nil || n < 0 {
			s.r.Fail("framing", "bad-length", fmt.Sprintf("outgoing Content-Length unreadable: %q", clip(string(data[:i]), 80)))
			s.desynced = true
			return
		}
		body := data[i+4:]
		if len(body) < n {
			s.r.Fail("framing", "length-too-long", fmt.Sprintf("outgoing Content-Length %d but only %d bytes follow", n, len(body)))
			s.desynced = true
			return
		}
		msgBytes := body[:n]
		rest := body[n:]
		if !json.Valid(msgBytes) || (len(rest) > 0 && !bytes.HasPrefix(rest, []byte(h))) {
			s.r.Fail("framing", "length-mismatch", fmt.Sprintf("outgoing frame of declared length %d is not exactly one JSON value followed by the next header: body %q, then %q", n, clip(string(msgBytes), 120), clip(string(rest), 40)))
			s.desynced = true
			return
		}
		var m outMsg
		if err := json.Unmarshal(msgBytes, &m); err != nil {
			s.r.Fail("framing", "not-an-object", fmt.Sprintf("outgoing message is not a JSON object: %q", clip(string(msgBytes), 120)))
		} else if m.Method != nil {
			if m.ID != nil && string(m.ID) != "null" {
				s.r.Probes["server-sent-a-request"]++
			}
			if *m.Method == "textDocument/publishDiagnostics" {
				var d diagNote
				if json.Unmarshal(m.Params, &d) == nil {
					diags = append(diags, d)
					if s.lastPub == nil {
						s.lastPub = map[string]*diagNote{}
					}
					dd := d
					s.lastPub[d.URI] = &dd
				}
			}
		} else {
			s.matchResponse(m, msgBytes)
		}
		data = rest
		s.r.Evals++
	}
	s.outOff = s.out.Len()
	// every well-formed request sent so far must have been answered by now (the
	// server is synchronous)
	var keep []pending
	for _, p := range s.pend {
		if p.maybe {
			continue
		}
		s.r.Fail("exactly-one-response", "no-response method="+methodClass(p.method), fmt.Sprintf("request id=%s method=%s got no response by the time the server asked for more input; last message: %s", p.id, p.method, s.lastDesc))
	}
	s.pend = keep
	s.checkDiagnostics(diags)
}

func methodClass(m string) string {
	switch m {
	case "initialize", "shutdown", "textDocument/hover", "textDocument/completion", "textDocument/formatting",
		"textDocument/documentSymbol", "textDocument/signatureHelp", "textDocument/codeAction":
		return m
	}
	if strings.HasPrefix(m, "textDocument/did") || m == "initialized" || m == "exit" {
		return m
	}
	return "unknown-method"
}

func (s *sim) matchResponse(m outMsg, raw []byte) {
	if m.ID == nil {
		s.r.Fail("exactly-one-response", "response-without-id", fmt.Sprintf("outgoing message has neither method nor id: %q", clip(string(raw), 160)))
		return
	}
	id := canonID(m.ID)
	for i, p := range s.pend {
		if p.id == id {
			s.pend = append(s.pend[:i], s.pend[i+1:]...)
			if len(m.Result) > 0 && string(m.Result) != "null" && len(m.Error) > 0 && string(m.Error) != "null" {
				s.r.Fail("exactly-one-response", "result-and-error method="+methodClass(p.method), fmt.Sprintf("response to id=%s carries both result and error: %q", id, clip(string(raw), 200)))
			}
			return
		}
	}
	s.r.Fail("exactly-one-response", "unsolicited-response", fmt.Sprintf("response with id=%s answers no outstanding request (second response, or a response to a notification); last message: %s; response %q", id, s.lastDesc, clip(string(raw), 200)))
}

func clip(s string, n int) string {
	if len(s) > n {
		return s[:n] + "…"
	}
	return s
}

// ---------------------------------------------------------------- mirror and diagnostics

func (s *sim) checkMirror() {
	for _, uri := range s.uris {
		got, ok := s.srv.Documents().GetContent(uri)
		m := s.model[uri]
		switch {
		case m != nil && m.maybe:
			// existence unknown (open/close during overload)
		case m == nil && ok:
			s.r.Fail("mirror", "closed-document-still-present", fmt.Sprintf("%s is closed (or never opened) but the server still holds %q; last message: %s", uri, clip(got, 60), s.lastDesc))
		case m != nil && !m.known:
			// undefined edit or overload: not compared until the next full sync
		case m != nil && !ok:
			s.r.Fail("mirror", "open-document-missing", fmt.Sprintf("%s is open but the server has no copy; last message: %s", uri, s.lastDesc))
		case m != nil && got != m.text:
			s.r.Fail("mirror", "content-diverged class="+s.lastEditClass, fmt.Sprintf("server's copy of %s = %q, the text obtained by applying the edits under the protocol's position rules = %q; last message: %s", uri, clip(got, 200), clip(m.text, 200), s.lastDesc))
			m.known = false // report once
		}
		s.r.Evals++
	}
}

func (s *sim) checkDiagnostics(diags []diagNote) {
	defer s.checkLastPublished()
	ln := s.lastNote
	s.lastNote.kind = ""
	if ln.kind == "" || !ln.safe {
		return
	}
	var last *diagNote
	for i := range diags {
		if diags[i].URI == ln.uri {
			last = &diags[i]
		}
	}
	m := s.model[ln.uri]
	switch ln.kind {
	case "close":
		if last == nil || len(last.Diagnostics) != 0 {
			s.r.Fail("diagnostics", "not-cleared-on-close", fmt.Sprintf("after didClose of %s the last published diagnostics are not empty (published: %v)", ln.uri, last != nil))
		}
		return
	case "open", "change":
	default:
		return
	}
	if m == nil || !m.known {
		return
	}
	if len(m.text) > 4*1024*1024 {
		return
	}
	if last == nil {
		s.r.Fail("diagnostics", "not-published kind="+ln.kind, fmt.Sprintf("no diagnostics were published for %s after %s (version %d): the last published ones belong to an older text; last message: %s", ln.uri, ln.kind, ln.version, s.lastDesc))
		return
	}
	if last.Version != nil && *last.Version != ln.version && ln.version > 0 {
		s.r.Fail("diagnostics", "stale-version", fmt.Sprintf("diagnostics for %s carry version %d, the document is at version %d", ln.uri, *last.Version, ln.version))
	}
	_, errs := gosqlx.ParseWithRecovery(m.text)
	if len(last.Diagnostics) != len(errs) {
		s.r.Fail("diagnostics", "count", fmt.Sprintf("%d diagnostics published for %s but recovery parsing of the document text %q reports %d errors", len(last.Diagnostics), ln.uri, clip(m.text, 200), len(errs)))
		return
	}
	if len(errs) > 0 {
		s.r.Probes["diagnostics-for-malformed-document"]++
	}
	if !m.structured || len(errs) == 0 {
		return
	}
	if m.tokErr {
		// tokenizer error: on the error's own line
		t, _ := tokenizer.New()
		_, terr := t.Tokenize([]byte(m.text))
		var ge *goerrors.Error
		if terr != nil && asErr(terr, &ge) && len(last.Diagnostics) == 1 {
			want := ge.Location.Line - 1
			if got := last.Diagnostics[0].Range.Start.Line; got != want && want >= 0 {
				s.r.Fail("diagnostics", "anchor-line tokenizer-error", fmt.Sprintf("tokenizer error is at line %d (0-based) but the diagnostic is published at line %d; text %q", want, got, clip(m.text, 200)))
			}
		}
		return
	}
	s.r.Probes["diagnostic-anchor-checked"]++
	for i, d := range last.Diagnostics {
		l := d.Range.Start.Line
		ok := false
		for _, br := range m.badRanges {
			if l >= br[0] && l <= br[1] {
				ok = true
			}
		}
		if !ok {
			s.r.Fail("diagnostics", "anchor-line parser-error", fmt.Sprintf("diagnostic %d (%q) is published at line %d, but the malformed statements of the document occupy lines %v; text %q", i, clip(d.Message, 80), l, m.badRanges, clip(m.text, 300)))
			return
		}
	}
}

// checkLastPublished: for EVERY open document whose text is known, the
// diagnostics published last for it are those of that text - whatever other
// documents were touched in between (several messages may have been processed
// since the last quiescent point) and in whatever order publications went out.
func (s *sim) checkLastPublished() {
	if len(s.r.Violations) > 0 {
		return
	}
	for _, uri := range s.uris {
		m := s.model[uri]
		if m == nil || !m.known || m.maybe || !m.pubSafe || len(m.text) > 4*1024*1024 {
			continue
		}
		lp := s.lastPub[uri]
		if lp == m.judgedPub && m.text == m.judgedText {
			continue
		}
		m.judgedPub, m.judgedText = lp, m.text
		if lp == nil {
			s.r.Fail("diagnostics", "not-published kind=any", fmt.Sprintf("%s is open with known text but no diagnostics were ever published for it; last message: %s", uri, s.lastDesc))
			return
		}
		_, errs := gosqlx.ParseWithRecovery(m.text)
		s.r.Evals++
		if len(lp.Diagnostics) != len(errs) {
			s.r.Fail("diagnostics", "last-published-belongs-to-another-text", fmt.Sprintf("the diagnostics published last for %s list %d problems (version %v) but its current text %q has %d: they belong to an earlier text or to another document; last message: %s", uri, len(lp.Diagnostics), versionOf(lp), clip(m.text, 160), len(errs), s.lastDesc))
			return
		}
	}
}

func versionOf(d *diagNote) any {
	if d.Version == nil {
		return "none"
	}
	return *d.Version
}

func asErr(err error, target **goerrors.Error) bool {
	for e := err; e != nil; {
		if ge, ok := e.(*goerrors.Error); ok {
			*target = ge
			return true
		}
		u, ok := e.(interface{ Unwrap() error })
		if !ok {
			return false
		}
		e = u.Unwrap()
	}
	return false
}

// ---------------------------------------------------------------- LSP position rules (reference model)

// applyLSP applies one incremental change under the protocol's rules. ok=false
// means the protocol does not define the result.
func applyLSP(text string, sl, sc, el, ec int, newText string) (res string, ok bool, class string) {
	so, ok1, c1 := lspOffset(text, sl, sc)
	eo, ok2, c2 := lspOffset(text, el, ec)
	class = c1
	if c2 != "in-range" {
		class = c2
	}
	if !ok1 || !ok2 {
		return "", false, class
	}
	if so > eo {
		return "", false, "inverted"
	}
	return text[:so] + newText + text[eo:], true, class
}

func lspOffset(text string, line, char int) (off int, ok bool, class string) {
	if line < 0 || char < 0 {
		return 0, false, "negative"
	}
	if strings.Contains(strings.ReplaceAll(text, "\r\n", ""), "\r") {
		return 0, false, "lone-CR"
	}
	// find line start
	start := 0
	for i := 0; i < line; i++ {
		j := strings.IndexByte(text[start:], '\n')
		if j < 0 {
			return len(text), true, "line-past-end"
		}
		start += j + 1
	}
	end := len(text)
	if j := strings.IndexByte(text[start:], '\n'); j >= 0 {
		end = start + j
	}
	crlf := end > start && text[end-1] == '\r'
	vis := end
	if crlf {
		vis = end - 1
	}
	// walk UTF-16 units
	units, i := 0, start
	for i < vis {
		if units == char {
			return i, true, classOf(text[start:vis])
		}
		r, sz := utf8.DecodeRuneInString(text[i:])
		u := 1
		if r >= 0x10000 {
			u = 2
		}
		if units+u > char {
			return 0, false, "inside-surrogate-pair"
		}
		units += u
		i += sz
	}
	if units == char {
		return vis, true, classOf(text[start:vis])
	}
	if crlf {
		return 0, false, "clamp-on-CRLF-line"
	}
	return vis, true, "char-past-line-end"
}

func classOf(line string) string {
	for i := 0; i < len(line); i++ {
		if line[i] >= 0x80 {
			return "in-range-non-ascii"
		}
	}
	return "in-range"
}

func lineCount(text string) int { return strings.Count(text, "\n") + 1 }

func sortedKeys(m map[string]*mdoc) []string {
	ks := make([]string, 0, len(m))
	for k := range m {
		ks = append(ks, k)
	}
	sort.Strings(ks)
	return ks
}
