// Package c09: returned values belong to the caller; pooled nodes come back
// clean. Two kinds of run, chosen by the tape:
//
//	(a) ownership: 1-3 simulated tasks parse/tokenize/scan/extract, HOLD the
//	    results, release some, obtain nodes through the public getters – under
//	    the seeded scheduler, a pool biased to hand released nodes straight to
//	    the next user, and the race detector. Every held value must stay
//	    unchanged; the pools must never hand out an object somebody still holds.
//	(b) cleanliness: objects whose every settable field was filled by reflection
//	    (and parsed trees) are released; every public getter is then drained
//	    with the pool forced to hit and each object must be canonically equal to
//	    what the same getter returns on an empty pool.
package c09

import (
	"fmt"
	"reflect"
	"strconv"
	"strings"

	"github.com/ajitpratap0/GoSQLX/pkg/gosqlx"
	"github.com/ajitpratap0/GoSQLX/pkg/sql/ast"
	"github.com/ajitpratap0/GoSQLX/pkg/sql/tokenizer"

	"verif/props/ops"
	"verif/sim/canon"
	"verif/sim/core"
	"verif/sim/gen"
	"verif/sim/pool"
	"verif/sim/racelog"
	"verif/sim/sched"
	"verif/sim/tape"
	"verifshim/simhook"
)

type poolEntry struct {
	Type  string
	Get   func() any
	Put   func(any)
	clean string // canonical form of what Get returns on an empty pool
}

// filled in by pooltable_gen.go (generated from the tree under test)
var (
	poolTable    []poolEntry
	exprPutTypes []func() ast.Expression
	unobservable []string
)

type P struct {
	env      *core.Env
	race     *racelog.Log
	concrete []reflect.Type // pointer-to-struct node types usable as donors
}

func New() core.Property { return &P{} }

func (p *P) ID() string    { return "C09" }
func (p *P) Level() string { return "exploration" }
func (p *P) Rule() string {
	return "two strata. ownership: one case = 1-3 tasks x 1-8 steps (operation with results held / release a held value / get a node through a public getter and hold it / verify) + pool-fault mode + schedule; non-trivial = at least one value was still held while another operation or release ran afterwards. cleanliness: one case = 1-3 releases of reflection-filled objects or parsed trees (every pooled type of the generated (type, Get, Put) table and every PutExpression case is reachable) followed by draining every public getter under forced pool hits; non-trivial = at least one getter returned a recycled object. distinct = tape hash"
}
func (p *P) Runs(tier string) int {
	if tier == "thorough" {
		return 2000000
	}
	return 60000
}

func (p *P) Init(env *core.Env) error {
	p.env = env
	p.race = racelog.Open()
	if len(poolTable) == 0 {
		return fmt.Errorf("empty pool table (generator found no getters in pkg/sql/ast/pool.go)")
	}
	ops.SetScratch(env.Scratch)
	ops.WarmUp()
	simhook.PurgeAll()
	ctl := &pool.Ctl{Mode: pool.AlwaysMiss}
	ctl.Install()
	defer pool.Uninstall()
	seen := map[reflect.Type]bool{}
	add := func(v any) {
		t := reflect.TypeOf(v)
		if t != nil && t.Kind() == reflect.Ptr && t.Elem().Kind() == reflect.Struct && !seen[t] {
			seen[t] = true
			p.concrete = append(p.concrete, t)
		}
	}
	pooledTypes = map[reflect.Type]bool{}
	for i := range poolTable {
		v := poolTable[i].Get()
		poolTable[i].clean = canon.Of(v)
		add(v)
		if t := reflect.TypeOf(v); t != nil && t.Kind() == reflect.Ptr && t.Elem().Kind() == reflect.Struct {
			pooledTypes[t] = true
		}
	}
	for _, f := range exprPutTypes {
		add(f())
	}
	simhook.PurgeAll()
	return nil
}

func (p *P) Assumptions() []string {
	return []string{
		"double release and use-after-release by the caller are caller errors and are never injected",
		"a value is 'handed to the caller' when a public function returns it; Tokenizer.Comments of an instance the caller keeps using is not treated as held across the next Tokenize on that instance",
		"'indistinguishable from freshly constructed' is judged on the canonical form (pointer identity and capacity ignored, nil equals empty)",
		"pools that have a Put path but no public getter are unobservable and listed, not judged: " + strings.Join(unobservable, "; "),
		"a Put function that panics on reflection-filled content is counted (probe) and skipped: robustness is not this property",
	}
}
func (p *P) Components() map[string]string {
	return map[string]string{
		"ast pools and Put*/Get* functions, parser, tokenizer, scanner, extractors, linter": "real code (sync/atomic imports rewritten to the shim)",
		"sync.Pool":            "shim: forced hits hand released objects to the next getter",
		"scheduler":            "simulator (ownership stratum); race detector real",
		"(type,Get,Put) table": "generated at check time from pkg/sql/ast/pool.go of the tree under test",
	}
}

func (p *P) Run(src *tape.Source, trace bool) *core.Result {
	r := core.NewResult()
	simhook.PurgeAll()
	ops.ResetGlobals()
	p.race.Mark()
	if src.Intn(2, "c09.kind") == 0 {
		p.cleanRun(r, src, trace)
	} else {
		p.ownRun(r, src, trace)
	}
	for _, site := range pool.DupSites() {
		r.Fail("pool-never-hands-out-a-live-object", "resident-twice "+site, fmt.Sprintf("at quiescence the pool used at %s holds the same object twice: two later users would share it", site))
	}
	for _, rep := range p.race.New() {
		switch rep.Class {
		case racelog.Library:
			r.Fail("race-free", rep.Sig, "data race on library state:\n"+rep.Text)
		case racelog.Callers:
			r.Fail("held-value-untouched(race)", rep.Sig, "two callers race on the same memory: the library handed one object to two holders:\n"+rep.Text)
		case racelog.Mixed:
			r.Fail("held-value-untouched(race)", rep.Sig, "library code on another task accessed memory a holder can still read, without ordering:\n"+rep.Text)
		default:
			r.Infra = "race report touching only harness frames:\n" + rep.Text
		}
	}
	r.LogHash ^= src.Hash()
	return r
}

// ------------------------------------------------------------------ reflection filler

type filler struct {
	src      *tape.Source
	concrete []reflect.Type
	n        int
}

var anyType = reflect.TypeOf((*any)(nil)).Elem()

func (f *filler) donor(t reflect.Type, depth int) reflect.Value {
	var cands []reflect.Type
	for _, c := range f.concrete {
		if c.AssignableTo(t) {
			cands = append(cands, c)
		}
	}
	if len(cands) == 0 {
		return reflect.Value{}
	}
	c := cands[f.src.Intn(len(cands), "fill.donor")]
	nv := reflect.New(c.Elem())
	f.fill(nv.Elem(), depth-1)
	return nv
}

func (f *filler) fill(v reflect.Value, depth int) {
	f.n++
	switch v.Kind() {
	case reflect.String:
		v.SetString("dirty" + strconv.Itoa(f.n))
	case reflect.Bool:
		v.SetBool(true)
	case reflect.Int, reflect.Int8, reflect.Int16, reflect.Int32, reflect.Int64:
		v.SetInt(7)
	case reflect.Uint, reflect.Uint8, reflect.Uint16, reflect.Uint32, reflect.Uint64:
		v.SetUint(7)
	case reflect.Float32, reflect.Float64:
		v.SetFloat(1.5)
	case reflect.Ptr:
		if depth <= 0 {
			return
		}
		switch v.Type().Elem().Kind() {
		case reflect.Struct:
			nv := reflect.New(v.Type().Elem())
			f.fill(nv.Elem(), depth-1)
			v.Set(nv)
		case reflect.Int, reflect.Int64, reflect.String, reflect.Bool:
			nv := reflect.New(v.Type().Elem())
			f.fill(nv.Elem(), 0)
			v.Set(nv)
		}
	case reflect.Interface:
		if v.Type() == anyType || v.Type().NumMethod() == 0 {
			v.Set(reflect.ValueOf("dirty" + strconv.Itoa(f.n)))
			return
		}
		if depth <= 0 {
			return
		}
		if d := f.donor(v.Type(), depth); d.IsValid() {
			v.Set(d)
		}
	case reflect.Slice:
		if depth <= 0 {
			return
		}
		n := 1 + f.src.Intn(3, "fill.len")
		if f.src.Intn(10, "fill.large") == 9 {
			// now and then a LARGE slice: pools commonly treat oversized objects
			// differently (drop them, or skip the clean-up that small ones get)
			n = []int{17, 65, 129, 300, 1100}[f.src.Intn(5, "fill.largelen")]
			s := reflect.MakeSlice(v.Type(), n, n)
			for i := 0; i < n; i++ {
				f.fill(s.Index(i), 0)
			}
			v.Set(s)
			return
		}
		s := reflect.MakeSlice(v.Type(), n, n+2)
		for i := 0; i < n; i++ {
			f.fill(s.Index(i), depth-1)
		}
		v.Set(s)
	case reflect.Map:
		if v.Type().Key().Kind() == reflect.String && depth > 0 {
			m := reflect.MakeMap(v.Type())
			e := reflect.New(v.Type().Elem()).Elem()
			f.fill(e, depth-1)
			m.SetMapIndex(reflect.ValueOf("dirty").Convert(v.Type().Key()), e)
			v.Set(m)
		}
	case reflect.Struct:
		for i := 0; i < v.NumField(); i++ {
			if fv := v.Field(i); fv.CanSet() {
				f.fill(fv, depth)
			}
		}
	}
}

// fillInPlace fills a pooled object the way its documentation shows: slices
// that come with pre-allocated capacity are appended to (the backing array the
// pool handed out is used), everything else as in fill.
func (f *filler) fillInPlace(v reflect.Value) {
	if v.Kind() != reflect.Struct {
		f.fill(v, 1)
		return
	}
	for i := 0; i < v.NumField(); i++ {
		fv := v.Field(i)
		if !fv.CanSet() {
			continue
		}
		if fv.Kind() == reflect.Slice && fv.Cap() > 0 {
			n := 1 + f.src.Intn(fv.Cap(), "fill.append")
			for j := 0; j < n && fv.Len() < fv.Cap(); j++ {
				e := reflect.New(fv.Type().Elem()).Elem()
				f.fill(e, 1)
				fv.Set(reflect.Append(fv, e))
			}
			continue
		}
		f.fill(fv, 1)
	}
}

// fieldDiff names every field in which the structs behind two pointers differ.
func fieldDiff(got, clean any) []string {
	a, b := reflect.ValueOf(got), reflect.ValueOf(clean)
	for a.Kind() == reflect.Ptr && !a.IsNil() && b.Kind() == reflect.Ptr && !b.IsNil() {
		a, b = a.Elem(), b.Elem()
	}
	if a.Kind() != reflect.Struct || b.Kind() != reflect.Struct || a.Type() != b.Type() {
		return []string{"value"}
	}
	var out []string
	for i := 0; i < a.NumField(); i++ {
		if canon.OfValue(a.Field(i)) != canon.OfValue(b.Field(i)) {
			out = append(out, a.Type().Field(i).Name)
		}
	}
	if len(out) == 0 {
		out = []string{"value"}
	}
	return out
}

// ------------------------------------------------------------------ (b) cleanliness

func (p *P) cleanRun(r *core.Result, src *tape.Source, trace bool) {
	ctl := &pool.Ctl{S: src, Mode: pool.AlwaysMiss}
	ctl.Install()
	defer pool.Uninstall()
	fl := &filler{src: src, concrete: p.concrete}
	g := gen.G{S: src}
	nRel := 1 + src.Intn(3, "c09.nrel")
	for i := 0; i < nRel; i++ {
		how := src.Intn(6, "c09.how")
		desc := ""
		var put func()
		switch how {
		case 0, 1: // a reflection-filled object of a table type through its own Put
			var cands []int
			for j := range poolTable {
				if poolTable[j].Put != nil {
					cands = append(cands, j)
				}
			}
			e := &poolTable[cands[src.Intn(len(cands), "c09.type")]]
			obj := e.Get() // New path (pool misses)
			rv := reflect.ValueOf(obj)
			if rv.Kind() == reflect.Ptr {
				fl.fill(rv.Elem(), 2+src.Intn(2, "c09.depth"))
			}
			desc = fmt.Sprintf("%s filled by reflection -> its Put function", e.Type)
			put = func() { e.Put(obj) }
		case 2: // a filled expression through PutExpression
			mk := exprPutTypes[src.Intn(len(exprPutTypes), "c09.etype")]
			obj := mk()
			fl.fill(reflect.ValueOf(obj).Elem(), 2+src.Intn(2, "c09.depth"))
			desc = fmt.Sprintf("%T filled by reflection -> ast.PutExpression", obj)
			put = func() { ast.PutExpression(obj) }
		case 4, 5: // any public operation, results released: exercises the library's own release paths (error paths included)
			op := ops.Gen(src, holdKinds)
			desc = "operation " + op.String() + " (results released)"
			put = func() { op.Exec(false) }
		default: // a parsed tree through ReleaseAST
			sql := g.Valid()
			tree, err := gosqlx.Parse(sql)
			if err != nil {
				continue
			}
			desc = fmt.Sprintf("gosqlx.Parse(%q) -> ast.ReleaseAST", clip(sql))
			put = func() { ast.ReleaseAST(tree) }
		}
		r.Tracef(trace, "release: "+desc)
		ctl.Mode = pool.HitNewest // Put keeps
		if msg := safely(put); msg != "" {
			r.Probes["put-panicked-on-filled-content"]++
			r.Tracef(trace, "  (Put panicked: "+msg+")")
		}
		ctl.Mode = pool.AlwaysMiss
		r.Faults["release."+[]string{"typed-put", "typed-put", "PutExpression", "ReleaseAST", "operation", "operation"}[how]]++
	}
	// drain every public getter with the pool forced to hit
	ctl.Mode = pool.HitNewest
	recycled := 0
	// everything the getters hand out during the drain is held (never put back):
	// the same pointer twice means it sat in a pool twice (double put, or a node
	// that was stored in two places of a released tree)
	handed := map[uintptr]string{}
	for pass := 0; pass < 12; pass++ {
		total := 0
		for _, pi := range simhook.Pools() {
			total += pi.Len()
		}
		if total == 0 {
			break
		}
		for j := range poolTable {
			e := &poolTable[j]
			before := ctl.HitNew
			got := e.Get()
			if ctl.HitNew == before {
				continue // nothing resident in this getter's pool
			}
			recycled++
			r.Evals++
			if ptr := ptrOf(got); ptr != 0 {
				if _, dup := handed[ptr]; dup {
					r.Fail("pool-never-hands-out-a-live-object", e.Type, fmt.Sprintf("while draining after the releases, the public getter for %s returned the same object twice although it was never put back in between: it sat in the pool twice", e.Type))
				}
				handed[ptr] = e.Type
			}
			if c := canon.Of(got); c != e.clean {
				for _, field := range fieldDiff(got, mustClean(e)) {
					r.Fail("pooled-node-clean", fmt.Sprintf("%s.%s", strings.TrimPrefix(e.Type, "*"), field),
						fmt.Sprintf("%s obtained from the pool after a release is not indistinguishable from a fresh one: field %s: got %s, fresh %s", e.Type, field, clipN(c, 400), clipN(e.clean, 200)))
				}
			}
		}
	}
	r.Probes["getter-returned-recycled-object"] += recycled
	r.Nontrivial = recycled > 0
	r.Steps = int64(recycled)
	ctl.Counts(r.Faults)
}

func mustClean(e *poolEntry) any {
	saveG := simhook.PoolGet
	simhook.PoolGet = func(*simhook.PoolInfo, int) int { return -1 }
	v := e.Get()
	simhook.PoolGet = saveG
	return v
}

func safely(f func()) (msg string) {
	defer func() {
		if rec := recover(); rec != nil {
			msg = fmt.Sprint(rec)
		}
	}()
	f()
	return ""
}

func clip(s string) string { return clipN(s, 70) }
func clipN(s string, n int) string {
	if len(s) > n {
		return s[:n] + "…"
	}
	return s
}

// ------------------------------------------------------------------ (a) ownership

type held struct {
	what    string
	value   any
	canon0  string
	release func()
	ptr     uintptr   // identity of getter-obtained objects / trees (0 = none)
	inner   []uintptr // pooled-type nodes reachable inside a held tree: live as long as the tree is
}

// pooledTypes: the pointer types the node pools hand out (from the generated table).
var pooledTypes map[reflect.Type]bool

// innerNodes returns the addresses of all nodes of pooled types reachable from v
// (each once; root excluded).
func innerNodes(v any, root uintptr) []uintptr {
	if pooledTypes == nil {
		return nil
	}
	var out []uintptr
	seen := map[uintptr]bool{}
	var walk func(rv reflect.Value, depth int)
	walk = func(rv reflect.Value, depth int) {
		if depth > 60 || !rv.IsValid() {
			return
		}
		switch rv.Kind() {
		case reflect.Interface:
			if !rv.IsNil() {
				walk(rv.Elem(), depth+1)
			}
		case reflect.Ptr:
			if rv.IsNil() {
				return
			}
			p := rv.Pointer()
			if seen[p] {
				return
			}
			seen[p] = true
			if pooledTypes[rv.Type()] && p != root {
				out = append(out, p)
			}
			walk(rv.Elem(), depth+1)
		case reflect.Struct:
			for i := 0; i < rv.NumField(); i++ {
				walk(rv.Field(i), depth+1)
			}
		case reflect.Slice, reflect.Array:
			for i := 0; i < rv.Len(); i++ {
				walk(rv.Index(i), depth+1)
			}
		}
	}
	walk(reflect.ValueOf(v), 0)
	return out
}

type step struct {
	kind int // 0 op, 1 release, 2 getnode, 3 verify, 4 tokenize on the task's own long-lived tokenizer
	op   ops.Op
	arg  int
}

// live set of pointers currently held (getter results and trees); touched from
// task goroutines, hence norace and no maps.
type liveSet struct{ ptrs []uintptr }

//go:norace
func (l *liveSet) add(p uintptr) bool {
	for _, q := range l.ptrs {
		if q == p {
			return false
		}
	}
	n := len(l.ptrs)
	if n == cap(l.ptrs) {
		grown := make([]uintptr, n, 2*n+64)
		for i := 0; i < n; i++ {
			grown[i] = l.ptrs[i]
		}
		l.ptrs = grown
	}
	l.ptrs = l.ptrs[:n+1]
	l.ptrs[n] = p
	return true
}

//go:norace
func (l *liveSet) remove(p uintptr) {
	for i, q := range l.ptrs {
		if q == p {
			l.ptrs[i] = l.ptrs[len(l.ptrs)-1]
			l.ptrs = l.ptrs[:len(l.ptrs)-1]
			return
		}
	}
}

type taskState struct {
	steps []step
	held  []*held
	fails []core.Violation
	busy  bool // some value was held while a later step ran
	tok   *tokenizer.Tokenizer // the task's own instance, used directly call after call (no pool round trip)
}

var holdKinds = []ops.Kind{ops.TokenizeDirect, ops.TokenizePooled, ops.Parse, ops.ParseCtx, ops.ParseMultiple, ops.ParseRecovery,
	ops.ParserParseBytes, ops.ParserParseBytesWithTokens, ops.ParserDialect, ops.TreeSQL, ops.Extract, ops.ScanSQL, ops.ScanTree, ops.Lint, ops.Format, ops.FormatterFormat,
	ops.ParserStrict, ops.ParserPooledOptions, ops.ParserPositions, ops.Validate, ops.ValidateMultiple, ops.ParserValidate, ops.ParseCtxCancelled, ops.TransformFromSQL, ops.ConfigLoad, ops.TransformRules}

func ptrOf(v any) uintptr {
	rv := reflect.ValueOf(v)
	if rv.Kind() == reflect.Ptr && !rv.IsNil() {
		return rv.Pointer()
	}
	return 0
}

func (p *P) ownRun(r *core.Result, src *tape.Source, trace bool) {
	nTasks := 1 + src.Intn(3, "c09.tasks")
	mode := []pool.Mode{pool.HitNewest, pool.Mixed, pool.HitOldest, pool.AlwaysMiss}[src.Intn(4, "c09.poolmode")]
	focus := src.Intn(len(poolTable), "c09.focus") // most get-node steps of a run use one type: makes get/release/get chains likely
	tasks := make([]*taskState, nTasks)
	for t := range tasks {
		ts := &taskState{}
		n := 1 + src.Intn(8, "c09.nsteps")
		for i := 0; i < n; i++ {
			switch k := src.Intn(10, "c09.step"); {
			case k == 4 && src.Intn(2, "c09.owntok") == 1:
				// the caller keeps ONE tokenizer and calls it again and again, failed
				// calls on larger inputs included; every successful result stays held
				sql := gen.G{S: src}.Any()
				if src.Intn(3, "c09.owntokfail") == 2 {
					sql = "SELECT a, b, c, d, e, f, g, h, i, j, k, l, m, n, o, p FROM t\nWHERE x = 1 AND y IN (1, 2, 3, 4, 5, 6, 7, 8) AND z = 'unterminated"
				}
				ts.steps = append(ts.steps, step{kind: 4, op: ops.Op{Kind: ops.TokenizeDirect, SQL: sql}})
			case k <= 4:
				ts.steps = append(ts.steps, step{kind: 0, op: ops.Gen(src, holdKinds)})
			case k <= 6:
				ts.steps = append(ts.steps, step{kind: 1, arg: src.Intn(8, "c09.which")})
			case k <= 8:
				g := focus
				if src.Intn(4, "c09.otherType") == 3 {
					g = src.Intn(len(poolTable), "c09.getter")
				}
				ts.steps = append(ts.steps, step{kind: 2, arg: g})
			default:
				ts.steps = append(ts.steps, step{kind: 3})
			}
		}
		tasks[t] = ts
	}
	pol := sched.PickPolicy(src)
	if trace {
		r.Tracef(true, fmt.Sprintf("ownership run: tasks=%d pool=%s policy=%s", nTasks, mode, pol))
		for t, ts := range tasks {
			for i, st := range ts.steps {
				switch st.kind {
				case 0:
					r.Tracef(true, fmt.Sprintf("  t%d.%d hold %s", t, i, st.op))
				case 1:
					r.Tracef(true, fmt.Sprintf("  t%d.%d release held[%d mod n]", t, i, st.arg))
				case 2:
					r.Tracef(true, fmt.Sprintf("  t%d.%d get node %s, fill, hold", t, i, poolTable[st.arg].Type))
				case 4:
					r.Tracef(true, fmt.Sprintf("  t%d.%d own tokenizer: hold %s", t, i, st.op))
				default:
					r.Tracef(true, fmt.Sprintf("  t%d.%d verify held values", t, i))
				}
			}
		}
	}
	ctl := &pool.Ctl{S: src, Mode: mode}
	ctl.Install()
	live := &liveSet{}
	s := sched.New(src, pol, 300*nTasks)
	s.WantTrace = trace
	for ti := range tasks {
		ts := tasks[ti]
		s.Go(func() { p.runTask(ts, src, live) })
	}
	s.Run()
	pool.Uninstall()
	r.Steps = int64(s.Steps())
	r.Extra["schedules"] = s.SchedHash
	r.Extra["conflict_orders"] = s.ConflictHash()
	r.Faults["sched.preemption"] += s.Preemptions
	r.Faults["policy."+pol.String()]++
	r.Faults["poolmode."+mode.String()]++
	ctl.Counts(r.Faults)
	if trace {
		r.Tracef(true, "schedule: "+strings.Join(s.Trace(), " "))
	}
	if s.Deadlock {
		r.Fail("progress", "deadlock", "all unfinished tasks blocked")
		r.Poisoned = true
		return
	}
	// final verification by the controller (ordered after every task)
	for ti, ts := range tasks {
		if s.Tasks[ti].Panic != "" {
			r.Fail("no-panic", strings.SplitN(s.Tasks[ti].Panic, "\n", 2)[0], "task panicked: "+s.Tasks[ti].Panic)
		}
		verify(ts, "at quiescence")
		for _, v := range ts.fails {
			r.Fail(v.Oracle, v.Sig, v.Msg+fmt.Sprintf(" [policy=%s preemptions=%d pool=%s tasks=%d]", pol, s.Preemptions, mode, nTasks))
		}
		if ts.busy {
			r.Nontrivial = true
		}
	}
	r.LogHash = s.SchedHash
}

func verify(ts *taskState, when string) {
	for _, h := range ts.held {
		if c := canon.Of(h.value); c != h.canon0 {
			ts.fails = append(ts.fails, core.Violation{Oracle: "held-value-unchanged", Sig: h.what,
				Msg: fmt.Sprintf("a %s handed to the caller and not released was modified by later library activity (%s): %s", h.what, when, canon.Diff(c, h.canon0))})
			h.canon0 = c // report once
		}
	}
}

func (p *P) runTask(ts *taskState, src *tape.Source, live *liveSet) {
	fl := &filler{src: src, concrete: p.concrete}
	for _, st := range ts.steps {
		if len(ts.held) > 0 {
			ts.busy = true
		}
		switch st.kind {
		case 0:
			res, hs := st.op.Exec(true)
			if strings.Contains(res, ops.TreeMutated) {
				ts.fails = append(ts.fails, core.Violation{Oracle: "read-only-operation-leaves-tree-unchanged", Sig: st.op.Kind.String(),
					Msg: fmt.Sprintf("%s modified the tree it was given", st.op)})
			}
			for _, h := range hs {
				hh := &held{what: h.What, value: h.Value, release: h.Release, canon0: canon.Of(h.Value)}
				if h.What == "tree" {
					hh.ptr = ptrOf(h.Value)
					if hh.ptr != 0 && !live.add(hh.ptr) {
						ts.fails = append(ts.fails, core.Violation{Oracle: "pool-never-hands-out-a-live-object", Sig: "*AST",
							Msg: fmt.Sprintf("%s returned an *ast.AST that another holder has not released", st.op.Kind)})
					}
				}
				if h.What == "tree" || h.What == "detached-part" {
					// every pooled-type node inside the value is in the holder's hands too
					for _, q := range innerNodes(h.Value, hh.ptr) {
						if live.add(q) {
							hh.inner = append(hh.inner, q)
						} else {
							ts.fails = append(ts.fails, core.Violation{Oracle: "pool-never-hands-out-a-live-object", Sig: "node-inside-two-live-values",
								Msg: fmt.Sprintf("%s returned a %s containing a pooled node that is also part of another value still held", st.op.Kind, h.What)})
						}
					}
				}
				ts.held = append(ts.held, hh)
			}
		case 4:
			if ts.tok == nil {
				ts.tok, _ = tokenizer.New()
			}
			if ts.tok != nil {
				if toks, err := ts.tok.Tokenize([]byte(st.op.SQL)); err == nil {
					ts.held = append(ts.held, &held{what: "tokens (caller's own tokenizer, reused directly)", value: toks, canon0: canon.Of(toks)})
				}
			}
		case 1:
			if len(ts.held) == 0 {
				continue
			}
			i := st.arg % len(ts.held)
			h := ts.held[i]
			// the value must be intact up to the moment its holder lets go of it
			if c := canon.Of(h.value); c != h.canon0 {
				ts.fails = append(ts.fails, core.Violation{Oracle: "held-value-unchanged", Sig: h.what,
					Msg: fmt.Sprintf("a %s handed to the caller was modified before the caller released it: %s", h.what, canon.Diff(c, h.canon0))})
			}
			ts.held = append(ts.held[:i], ts.held[i+1:]...)
			if h.ptr != 0 {
				live.remove(h.ptr)
			}
			for _, q := range h.inner {
				live.remove(q)
			}
			if h.release != nil {
				h.release()
			}
		case 2:
			e := &poolTable[st.arg]
			n := e.Get()
			hh := &held{what: "node:" + e.Type, value: n, ptr: ptrOf(n)}
			if hh.ptr != 0 && !live.add(hh.ptr) {
				ts.fails = append(ts.fails, core.Violation{Oracle: "pool-never-hands-out-a-live-object", Sig: e.Type,
					Msg: fmt.Sprintf("the public getter for %s returned an object that a holder obtained earlier and has not released - directly or as a node inside a tree it holds (it sat in the pool while live, or twice)", e.Type)})
				continue
			}
			if rv := reflect.ValueOf(n); rv.Kind() == reflect.Ptr && !rv.IsNil() {
				fl.fillInPlace(rv.Elem())
			}
			hh.canon0 = canon.Of(n)
			if e.Put != nil {
				put := e.Put
				hh.release = func() { put(n) }
			}
			ts.held = append(ts.held, hh)
		default:
			verify(ts, "while other tasks run")
		}
	}
	verify(ts, "at task end")
}
