// Package c08: results never depend on what a reused or pooled object did
// before. One run = a generated history of operations on one tokenizer or one
// parser instance (or a batch entry point), with the simulated pool deciding
// who receives a returned instance and simulated contexts cancelling calls
// half-way; reference model = a fresh instance carrying the configuration the
// current holder gave it.
package c08

import (
	"context"
	"fmt"
	"io"
	"log/slog"
	"strings"

	"github.com/ajitpratap0/GoSQLX/pkg/gosqlx"
	"github.com/ajitpratap0/GoSQLX/pkg/models"
	"github.com/ajitpratap0/GoSQLX/pkg/sql/ast"
	"github.com/ajitpratap0/GoSQLX/pkg/sql/keywords"
	"github.com/ajitpratap0/GoSQLX/pkg/sql/parser"
	"github.com/ajitpratap0/GoSQLX/pkg/sql/token"
	"github.com/ajitpratap0/GoSQLX/pkg/sql/tokenizer"

	"verif/props/probe"
	"verif/sim/canon"
	"verif/sim/core"
	"verif/sim/gen"
	"verif/sim/pool"
	"verif/sim/simctx"
	"verif/sim/tape"
	"verifshim/simhook"
)

type P struct {
	env  *core.Env
	prev string // previous input of the current history (variants are derived from it)
}

func New() core.Property { return &P{} }

func (p *P) ID() string    { return "C08" }
func (p *P) Level() string { return "exploration" }
func (p *P) Rule() string {
	return "one case = a history of 1-14 operations (tokenize / the parse entry points / recovery parse / apply option / set dialect / reset / release / put+get through the simulated pool, over valid, invalid, deeply nested and cancelled inputs) on ONE tokenizer or parser instance or a batch entry point, followed by the probe battery on the used instance and on a fresh instance with the current holder's configuration; non-trivial = history length >= 2 and the instance was reused (at least one call after an earlier call, reset or pool round-trip); distinct = distinct operation-kind sequences x inputs (tape hash)"
}
func (p *P) Runs(tier string) int {
	if tier == "thorough" {
		return 3000000
	}
	return 60000
}
func (p *P) Init(env *core.Env) error { p.env = env; return nil }
func (p *P) Assumptions() []string {
	return []string{
		"'configuration the current holder gave': options applied since the instance was constructed or obtained from the pool; after an explicit Reset()/Release() by the same holder both 'fresh with the holder's options' and 'fresh default' are accepted (the statement is ambiguous there)",
		"histories are sampled; the probe battery is fixed (12 inputs x 2-4 entry points) and rotated",
		"node-pool cleanliness is not judged here (simulated pool misses on node pools during probes; that is C09)",
	}
}
func (p *P) Components() map[string]string {
	return map[string]string{
		"tokenizer, parser, gosqlx/parser package-level entry points": "real code (sync/atomic imports rewritten to the shim)",
		"sync.Pool": "shim: forced hit on the tokenizer/parser pools for put+get, miss elsewhere; purge as an event",
		"context":   "stub (simctx.Ctx fires at poll k)",
		"scheduler": "not used (one task: the property is about histories)",
	}
}

var dialects = []keywords.SQLDialect{keywords.DialectMySQL, keywords.DialectSQLServer, keywords.DialectOracle, keywords.DialectSQLite, keywords.DialectSnowflake, keywords.DialectPostgreSQL, keywords.DialectGeneric}

func instancePools(pi *simhook.PoolInfo) bool {
	return strings.Contains(pi.Site, "tokenizer/pool.go") && strings.Contains(pi.Site, "Tokenizer") ||
		strings.Contains(pi.Site, "parser/parser.go")
}

// histInput draws the next input of a history; now and then it is a variant of
// the previous one (same shape, one word different).
func (p *P) histInput(g gen.G) string {
	if p.prev != "" && g.S.Intn(5, "c08.variant") == 4 {
		if v, ok := g.Variant(p.prev); ok {
			p.prev = v
			return v
		}
	}
	x := p.histInput1(g)
	p.prev = x
	return x
}

func (p *P) histInput1(g gen.G) string {
	switch g.S.Intn(9, "c08.in") {
	case 8:
		// one of the probe inputs itself: same text, same number of tokens as a later probe
		return probe.Inputs[g.S.Intn(len(probe.Inputs), "c08.probein")].SQL
	case 0:
		return g.Valid()
	case 1:
		return g.Multi()
	case 2:
		return "SELECT a, -- c\n b /* x */\nFROM t\nWHERE a = 1\n  AND b = 2\n  AND c = 3\n-- tail\n"
	case 3:
		return gen.Nested([]int{50, 99, 100, 101, 200}[g.S.Intn(5, "c08.depth")])
	default:
		return g.FaultLike()
	}
}

func (p *P) Run(src *tape.Source, trace bool) *core.Result {
	r := core.NewResult()
	p.prev = ""
	simhook.PurgeAll()
	ctl := &pool.Ctl{S: src, Mode: pool.AlwaysMiss}
	ctl.Install()
	defer pool.Uninstall()
	switch src.Intn(6, "c08.target") {
	case 5:
		p.alignedRun(r, src, trace)
	case 0, 1:
		p.parserRun(r, src, ctl, trace)
	case 2, 3:
		p.tokenizerRun(r, src, ctl, trace)
	default:
		p.batchRun(r, src, ctl, trace)
	}
	for _, site := range pool.DupSites() {
		r.Fail("pool-holds-an-instance-twice", site, fmt.Sprintf("after the history the pool used at %s holds the same object twice: the next two holders would share one instance", site))
	}
	ctl.Counts(r.Faults)
	r.LogHash = src.Hash()
	return r
}

// ------------------------------------------------------------------ cancellation between two tokens, then a sibling input

// alignedRun: the tokenizer polls the context once per 100 tokens, so a
// cancellation always lands between two particular tokens. Here that boundary
// is moved across a statement: padding statements are put in front of a
// feature statement so that its t-th token is the 100th (or 200th) of the
// input, the call is cancelled at that poll, and the instance then tokenizes a
// SIBLING input - the same text with the word after the boundary shortened (so
// an identifier starts at the very offset where the interrupted call stopped
// looking). Each call is compared with the same call on a fresh instance.
func (p *P) alignedRun(r *core.Result, src *tape.Source, trace bool) {
	feats := gen.Features()
	f := feats[src.Intn(len(feats), "c08.alignfeat")]
	ft, _ := tokenizer.New()
	ftoks, err := ft.Tokenize([]byte(f))
	if err != nil || len(ftoks) < 4 || strings.Contains(f, "\n") {
		return
	}
	t := 1 + src.Intn(len(ftoks)-2, "c08.aligntok") // 1-based index of the feature token that becomes token #boundary
	boundary := 100 * (1 + src.Intn(2, "c08.alignboundary"))
	need := boundary - t
	// padding: a x "SELECT 1;" (3 tokens) + b x "SELECT 1, 1;" (5 tokens)
	a, b := -1, 0
	for b = 0; b < 3; b++ {
		if (need-5*b) >= 0 && (need-5*b)%3 == 0 {
			a = (need - 5*b) / 3
			break
		}
	}
	if a < 0 {
		return
	}
	pad := strings.Repeat("SELECT 1; ", a) + strings.Repeat("SELECT 1, 1; ", b)
	x := pad + f
	// the sibling: the word after the boundary token reduced to its first byte
	y, y2 := "", ""
	if t < len(ftoks)-1 {
		nx := ftoks[t] // 0-based index t = the token after the t-th
		if nx.Start.Line == 1 && nx.End.Line == 1 && nx.End.Column-nx.Start.Column > 1 && nx.Start.Column >= 1 && nx.End.Column-1 <= len(f) {
			y = pad + f[:nx.Start.Column] + f[nx.End.Column-1:]
			// second sibling: additionally the boundary token itself is replaced by a
			// plain identifier of the same length (offsets unchanged), so that the
			// sibling does not redo whatever the boundary token made the scanner do
			if bt := ftoks[t-1]; bt.Start.Line == 1 && bt.End.Line == 1 && bt.End.Column > bt.Start.Column && bt.End.Column <= nx.Start.Column {
				y2 = pad + f[:bt.Start.Column-1] + strings.Repeat("z", bt.End.Column-bt.Start.Column) + f[bt.End.Column-1:nx.Start.Column] + f[nx.End.Column-1:]
			}
		}
	}
	cfg := probe.TokCfg{}
	tk, _ := tokenizer.New()
	if src.Intn(2, "c08.alignpooled") == 1 {
		tk = tokenizer.GetTokenizer()
	}
	E := []error{context.Canceled, context.DeadlineExceeded}[src.Intn(2, "c08.cerr")]
	// which poll follows token #boundary depends on whether the loop also polls
	// before the first token: both numberings are tried
	fire := boundary/100 + src.Intn(2, "c08.alignpoll")
	ctx := simctx.New(fire, E)
	_, cerr := tk.TokenizeContext(ctx, []byte(x))
	r.Tracef(trace, fmt.Sprintf("t.TokenizeContext(fire@%d, %q) -> err=%v   // feature token %d is token #%d", fire, clip(x[len(pad):]), cerr != nil, t, boundary))
	if !ctx.Fired() {
		return
	}
	r.Faults["history.cancelled-between-two-tokens"]++
	r.Nontrivial = true
	how := src.Intn(3, "c08.alignnext")
	if how == 1 {
		tk.Reset()
	} else if how == 2 {
		tokenizer.PutTokenizer(tk)
		ctl := &pool.Ctl{S: src, Mode: pool.HitNewest}
		ctl.Install()
		tk = tokenizer.GetTokenizer()
		ctl.Mode = pool.AlwaysMiss
	}
	first := []string{y, y2}
	if src.Intn(2, "c08.alignsib") == 1 {
		first = []string{y2, y}
	}
	for _, in := range append(first, x, f) {
		if in == "" {
			continue
		}
		toks, e1 := tk.Tokenize([]byte(in))
		fr := probe.FreshTokenizer(cfg)
		ftk, e2 := fr.Tokenize([]byte(in))
		used := "tokens=" + canon.Of(toks) + " err=" + canon.Err(e1) + " comments=" + canon.Of(tk.Comments)
		fresh := "tokens=" + canon.Of(ftk) + " err=" + canon.Err(e2) + " comments=" + canon.Of(fr.Comments)
		r.Evals++
		if used != fresh {
			r.Fail("tokenizer-like-fresh", "after=cancelled-between-two-tokens entry=Tokenize part="+probe.Part(used, fresh),
				fmt.Sprintf("after TokenizeContext was cancelled (%v) at the poll following token #%d of %q (then %s), Tokenize(%q) differs from a fresh tokenizer: %s", E, boundary, clip(x[len(pad):]), []string{"directly", "Reset", "Put+Get"}[how], clip(in[len(in)-min(len(in), 60):]), canon.Diff(used, fresh)))
			return
		}
	}
}

// ------------------------------------------------------------------ tokenizer

func (p *P) tokenizerRun(r *core.Result, src *tape.Source, ctl *pool.Ctl, trace bool) {
	g := gen.G{S: src}
	var t *tokenizer.Tokenizer
	cfg := probe.TokCfg{}
	switch src.Intn(3, "c08.tsrc") {
	case 0:
		t, _ = tokenizer.New()
		r.Tracef(trace, "t := tokenizer.New()")
	case 1:
		d := dialects[src.Intn(len(dialects), "c08.dialect")]
		t, _ = tokenizer.NewWithDialect(d)
		cfg.Dialect = d
		r.Tracef(trace, fmt.Sprintf("t := tokenizer.NewWithDialect(%q)", d))
	default:
		t = tokenizer.GetTokenizer()
		r.Tracef(trace, "t := tokenizer.GetTokenizer()")
	}
	n := 1 + src.Intn(14, "c08.len")
	calls, reused := 0, false
	kinds := ""
	check := func(after string, ambiguous bool) {
		rot := src.Intn(probe.Rotations(), "c08.rot")
		used := probe.TokBattery(t, rot)
		fresh := probe.TokBattery(probe.FreshTokenizer(cfg), rot)
		name, part, diff := probe.Compare(used, fresh)
		if name != "" && ambiguous {
			// the holder's options did not survive: then the instance must be like a
			// default one, and that is what the holder has from now on
			def := probe.TokBattery(probe.FreshTokenizer(probe.TokCfg{}), rot)
			if n2, _, _ := probe.Compare(used, def); n2 == "" {
				name = ""
				cfg = probe.TokCfg{}
			}
		}
		r.Evals++
		if name != "" {
			entry := name[strings.Index(name, "/")+1:]
			r.Fail("tokenizer-like-fresh", fmt.Sprintf("after=%s entry=%s part=%s", after, entry, part),
				fmt.Sprintf("after history [%s] (%s) the tokenizer differs from a fresh one configured %+v: probe %s differs in %s: %s", kinds, after, cfg, name, part, diff))
		}
	}
	for i := 0; i < n; i++ {
		switch k := src.Intn(10, "c08.top"); {
		case k <= 2:
			x := p.histInput(g)
			toks, err := t.Tokenize([]byte(x))
			// the call itself is compared with the same call on a fresh instance
			ft := probe.FreshTokenizer(cfg)
			ftoks, ferr := ft.Tokenize([]byte(x))
			used := "tokens=" + canon.Of(toks) + " err=" + canon.Err(err) + " comments=" + canon.Of(t.Comments)
			fresh := "tokens=" + canon.Of(ftoks) + " err=" + canon.Err(ferr) + " comments=" + canon.Of(ft.Comments)
			r.Evals++
			if used != fresh && len(r.Violations) == 0 {
				r.Fail("tokenizer-like-fresh", "after=history-call entry=Tokenize part="+probe.Part(used, fresh),
					fmt.Sprintf("after history [%s] the call t.Tokenize(%q) differs from the same call on a fresh tokenizer configured %+v: %s", kinds, clip(x), cfg, canon.Diff(used, fresh)))
			}
			kinds += "Tokenize "
			r.Tracef(trace, fmt.Sprintf("t.Tokenize(%q) -> err=%v", clip(x), err != nil))
			if calls > 0 {
				reused = true
			}
			calls++
			if err != nil {
				r.Faults["history.failed-call"]++
			}
		case k <= 4:
			x := p.histInput(g)
			fire := src.Intn(6, "c08.fire") - 1
			var ctx *simctx.Ctx
			if fire < 0 {
				ctx = simctx.Never()
			} else {
				ctx = simctx.New(fire, []error{context.Canceled, context.DeadlineExceeded}[src.Intn(2, "c08.cerr")])
			}
			toks, err := t.TokenizeContext(ctx, []byte(x))
			if fire < 0 {
				ft := probe.FreshTokenizer(cfg)
				ftoks, ferr := ft.TokenizeContext(simctx.Never(), []byte(x))
				used := "tokens=" + canon.Of(toks) + " err=" + canon.Err(err) + " comments=" + canon.Of(t.Comments)
				fresh := "tokens=" + canon.Of(ftoks) + " err=" + canon.Err(ferr) + " comments=" + canon.Of(ft.Comments)
				r.Evals++
				if used != fresh && len(r.Violations) == 0 {
					r.Fail("tokenizer-like-fresh", "after=history-call entry=TokenizeContext part="+probe.Part(used, fresh),
						fmt.Sprintf("after history [%s] the call t.TokenizeContext(%q) differs from the same call on a fresh tokenizer configured %+v: %s", kinds, clip(x), cfg, canon.Diff(used, fresh)))
				}
			}
			kinds += "TokenizeContext "
			r.Tracef(trace, fmt.Sprintf("t.TokenizeContext(fire@%d, %q) -> err=%v", fire, clip(x), err != nil))
			if ctx.Fired() {
				r.Faults["history.cancelled-call"]++
			}
			if calls > 0 {
				reused = true
			}
			calls++
		case k == 5:
			d := dialects[src.Intn(len(dialects), "c08.dialect")]
			t.SetDialect(d)
			cfg.Dialect = d
			kinds += "SetDialect "
			r.Tracef(trace, fmt.Sprintf("t.SetDialect(%q)", d))
		case k == 6:
			t.SetLogger(slog.New(slog.NewTextHandler(io.Discard, &slog.HandlerOptions{Level: slog.LevelDebug})))
			kinds += "SetLogger "
			r.Tracef(trace, "t.SetLogger(debug)")
		case k == 7:
			t.Reset()
			kinds += "Reset "
			r.Tracef(trace, "t.Reset()")
			r.Faults["history.reset"]++
			if calls > 0 {
				reused = true
			}
			check("Reset", true)
		default:
			// put, then a new holder gets an instance from the pool
			tokenizer.PutTokenizer(t)
			ctl.Mode, ctl.Only = pool.HitNewest, instancePools
			if src.Intn(8, "c08.purge") == 7 {
				ctl.PurgeAll()
			}
			t2 := tokenizer.GetTokenizer()
			if t2 == t {
				r.Probes["pool-returned-the-same-instance"]++
				if cfg.Dialect != "" && cfg.Dialect != keywords.DialectPostgreSQL {
					r.Probes["pool-returned-instance-last-configured-with-non-default-dialect"]++
				}
			}
			// package-level entry points draw from the same pools: exercise them too
			p.pkgLevel(r, src, ctl, "tokenizer put by a holder configured "+string(cfg.Dialect))
			ctl.Mode, ctl.Only = pool.AlwaysMiss, nil
			t = t2
			cfg = probe.TokCfg{}
			kinds += "Put+Get "
			r.Tracef(trace, "tokenizer.PutTokenizer(t); t = tokenizer.GetTokenizer()  // new holder")
			r.Faults["history.put-get"]++
			if calls > 0 {
				reused = true
			}
			check("Put+Get", false)
		}
	}
	check("end", false)
	r.Nontrivial = n >= 2 && reused
}

// pkgLevel compares package-level entry points (which take tokenizer and
// parser from the pools) under a forced hit with the same calls on an
// always-miss pool.
func (p *P) pkgLevel(r *core.Result, src *tape.Source, ctl *pool.Ctl, ctxmsg string) {
	rot := src.Intn(len(probe.Inputs), "c08.pkgrot")
	run := func() []probe.Res {
		var out []probe.Res
		for i := 0; i < 6; i++ {
			in := probe.Inputs[(rot+i)%len(probe.Inputs)] // consecutive: neighbours in the list are meant to follow each other
			a, err := gosqlx.Parse(in.SQL)
			out = append(out, probe.Res{Name: in.Name + "/gosqlx.Parse", Canon: treeCanon(a, err)})
			a, err = parser.ParseBytes([]byte(in.SQL))
			out = append(out, probe.Res{Name: in.Name + "/parser.ParseBytes", Canon: treeCanon(a, err)})
			out = append(out, probe.Res{Name: in.Name + "/parser.ValidateBytes", Canon: "err=" + canon.Err(parser.ValidateBytes([]byte(in.SQL)))})
			a, toks, err := parser.ParseBytesWithTokens([]byte(in.SQL))
			out = append(out, probe.Res{Name: in.Name + "/parser.ParseBytesWithTokens", Canon: treeCanon(a, err) + " tokens=" + canon.Of(toks)})
			stmts, errs := gosqlx.ParseWithRecovery(in.SQL)
			out = append(out, probe.Res{Name: in.Name + "/gosqlx.ParseWithRecovery", Canon: "stmts=" + canon.Of(stmts) + " errs=" + canon.Of(errs)})
			if err == nil && toks != nil {
				// pooled parser behind ParseMultiWithRecovery; Release puts it back
				rr := parser.ParseMultiWithRecovery(toks)
				out = append(out, probe.Res{Name: in.Name + "/parser.ParseMultiWithRecovery", Canon: "stmts=" + canon.Of(rr.Statements) + " errs=" + canon.Of(rr.Errors)})
				rr.Release()
			}
		}
		return out
	}
	saveM, saveO := ctl.Mode, ctl.Only
	ctl.Mode, ctl.Only = pool.HitNewest, instancePools
	used := run()
	// snapshot of pools is disturbed by the calls above only in that instances went out and came back
	ctl.Mode, ctl.Only = pool.AlwaysMiss, nil
	fresh := run()
	// third pass: EVERY pool hits (helper buffers, converters, node containers):
	// whatever pooled object a call receives, its result must be the same
	ctl.Mode, ctl.Only = pool.HitNewest, nil
	all := run()
	ctl.Mode, ctl.Only = saveM, saveO
	if name, part, diff := probe.Compare(all, fresh); name != "" {
		entry := name[strings.Index(name, "/")+1:]
		r.Fail("pooled-entry-like-fresh", fmt.Sprintf("all-pools-hit entry=%s part=%s", entry, part),
			fmt.Sprintf("%s: with every pool handing out its most recently returned object, %s returns a different result than with empty pools: probe %s differs in %s: %s", ctxmsg, entry, name, part, diff))
	}
	for _, site := range pool.DupSites() {
		r.Fail("pool-holds-an-instance-twice", site, fmt.Sprintf("%s: after the package-level entry points ran, the pool used at %s holds the same object twice: the next two holders would share one instance", ctxmsg, site))
	}
	r.Evals++
	if name, part, diff := probe.Compare(used, fresh); name != "" {
		entry := name[strings.Index(name, "/")+1:]
		r.Fail("pooled-entry-like-fresh", fmt.Sprintf("entry=%s part=%s", entry, part),
			fmt.Sprintf("%s: %s then returns a different result than with an empty pool: probe %s differs in %s: %s", ctxmsg, entry, name, part, diff))
	}
}

func treeCanon(a *ast.AST, err error) string {
	var t any
	if a != nil {
		t = a
	}
	return "tree=" + canon.Of(t) + " err=" + canon.Err(err)
}

// ------------------------------------------------------------------ parser

func (p *P) parserRun(r *core.Result, src *tape.Source, ctl *pool.Ctl, trace bool) {
	g := gen.G{S: src}
	var ps *parser.Parser
	cfg := probe.ParCfg{}
	pickOpts := func() probe.ParCfg {
		c := probe.ParCfg{}
		switch src.Intn(4, "c08.opts") {
		case 1:
			c.Strict = true
		case 2:
			c.Dialect = string(dialects[src.Intn(len(dialects), "c08.dialect")])
		case 3:
			c.Strict = true
			c.Dialect = string(dialects[src.Intn(len(dialects), "c08.dialect")])
		}
		return c
	}
	if src.Intn(2, "c08.psrc") == 0 {
		cfg = pickOpts()
		ps = parser.NewParser(cfg.Opts()...)
		r.Tracef(trace, fmt.Sprintf("p := parser.NewParser(%+v)", cfg))
	} else {
		ps = parser.GetParser()
		r.Tracef(trace, "p := parser.GetParser()")
	}
	n := 1 + src.Intn(14, "c08.len")
	calls, reused := 0, false
	kinds := ""
	check := func(after string, ambiguous bool) {
		rot := src.Intn(probe.Rotations(), "c08.rot")
		used := probe.ParBattery(ps, rot)
		fresh := probe.ParBattery(probe.FreshParser(cfg), rot)
		name, part, diff := probe.Compare(used, fresh)
		if name != "" && ambiguous {
			def := probe.ParBattery(probe.FreshParser(probe.ParCfg{}), rot)
			if n2, _, _ := probe.Compare(used, def); n2 == "" {
				name = ""
				cfg = probe.ParCfg{}
			}
		}
		r.Evals++
		if name != "" {
			entry := name[strings.Index(name, "/")+1:]
			r.Fail("parser-like-fresh", fmt.Sprintf("after=%s entry=%s part=%s", after, entry, part),
				fmt.Sprintf("after history [%s] (%s) the parser differs from a fresh one configured %+v: probe %s differs in %s: %s", kinds, after, cfg, name, part, diff))
		}
	}
	tokenizeFresh := func(x string) []models.TokenWithSpan {
		t, _ := tokenizer.New()
		toks, err := t.Tokenize([]byte(x))
		if err != nil {
			return nil
		}
		return toks
	}
	for i := 0; i < n; i++ {
		k := src.Intn(14, "c08.pop")
		if k <= 7 {
			x := p.histInput(g)
			toks := tokenizeFresh(x)
			if toks == nil {
				x = "SELECT a FROM"
				toks = tokenizeFresh(x)
			}
			var err error
			var name string
			// every call of the history is itself compared with the same call on a
			// fresh instance carrying the holder's configuration (not only the probe
			// battery afterwards): what an earlier input left behind may matter only
			// for an input of the same shape
			var call func(q *parser.Parser) string
			switch k {
			case 0:
				name = "ParseFromModelTokens"
				call = func(q *parser.Parser) string { a, e := q.ParseFromModelTokens(toks); err = e; return treeCanon(a, e) }
			case 1:
				name = "ParseFromModelTokensWithPositions"
				call = func(q *parser.Parser) string {
					a, e := q.ParseFromModelTokensWithPositions(toks)
					err = e
					return treeCanon(a, e)
				}
			case 2, 3:
				fire := src.Intn(8, "c08.fire") - 1
				var ctx *simctx.Ctx
				if fire < 0 {
					ctx = simctx.Never()
				} else {
					ctx = simctx.New(fire, []error{context.Canceled, context.DeadlineExceeded}[src.Intn(2, "c08.cerr")])
				}
				name = fmt.Sprintf("ParseContextFromModelTokens(fire@%d)", fire)
				_, err = ps.ParseContextFromModelTokens(ctx, toks)
				if ctx.Fired() {
					r.Faults["history.cancelled-call"]++
				}
			case 4:
				name = "ParseWithRecoveryFromModelTokens"
				call = func(q *parser.Parser) string {
					stmts, errs := q.ParseWithRecoveryFromModelTokens(toks)
					err = nil
					if len(errs) > 0 {
						err = errs[0]
					}
					return "stmts=" + canon.Of(stmts) + " errs=" + canon.Of(errs)
				}
			default:
				// entry points taking parser tokens: obtainable for accepted inputs only
				_, ptoks, perr := parser.ParseBytesWithTokens([]byte(x))
				if perr != nil {
					x = "SELECT a,\n b FROM t WHERE a = (SELECT 1)"
					toks = tokenizeFresh(x)
					_, ptoks, _ = parser.ParseBytesWithTokens([]byte(x))
				}
				switch k {
				case 5:
					name = "Parse"
					call = func(q *parser.Parser) string { a, e := q.Parse(ptoks); err = e; return treeCanon(a, e) }
				case 6:
					name = "ParseContext"
					_, err = ps.ParseContext(simctx.New(src.Intn(6, "c08.fire"), context.Canceled), ptoks)
				default:
					name = "ParseWithPositions"
					call = func(q *parser.Parser) string {
						a, e := q.ParseWithPositions(conversion(ptoks, toks))
						err = e
						return treeCanon(a, e)
					}
				}
			}
			if call != nil {
				fresh := call(probe.FreshParser(cfg))
				used := call(ps)
				r.Evals++
				if used != fresh && len(r.Violations) == 0 {
					r.Fail("parser-like-fresh", fmt.Sprintf("after=history-call entry=%s part=%s", name, probe.Part(used, fresh)),
						fmt.Sprintf("after history [%s] the call p.%s(%q) differs from the same call on a fresh parser configured %+v: %s", kinds, name, clip(x), cfg, canon.Diff(used, fresh)))
				}
			}
			kinds += strings.SplitN(name, "(", 2)[0] + " "
			r.Tracef(trace, fmt.Sprintf("p.%s(%q) -> err=%v", name, clip(x), err != nil))
			if err != nil {
				r.Faults["history.failed-call"]++
			}
			if calls > 0 {
				reused = true
			}
			calls++
			continue
		}
		switch k {
		case 8, 9:
			if src.Intn(5, "c08.cleardialect") == 4 {
				// the holder puts its parser back on the default dialect
				ps.ApplyOptions(parser.WithDialect(""))
				cfg.Dialect = ""
				kinds += "ApplyOptions(dialect=\"\") "
				r.Tracef(trace, `p.ApplyOptions(WithDialect(""))`)
				continue
			}
			o := pickOpts()
			ps.ApplyOptions(o.Opts()...)
			if o.Strict {
				cfg.Strict = true
			}
			if o.Dialect != "" {
				cfg.Dialect = o.Dialect
			}
			kinds += "ApplyOptions "
			r.Tracef(trace, fmt.Sprintf("p.ApplyOptions(%+v)", o))
		case 10:
			ps.Reset()
			kinds += "Reset "
			r.Tracef(trace, "p.Reset()")
			r.Faults["history.reset"]++
			if calls > 0 {
				reused = true
			}
			check("Reset", true)
		case 11:
			ps.Release()
			kinds += "Release "
			r.Tracef(trace, "p.Release()")
			r.Faults["history.release"]++
			if calls > 0 {
				reused = true
			}
			check("Release", true)
		default:
			parser.PutParser(ps)
			ctl.Mode, ctl.Only = pool.HitNewest, instancePools
			if src.Intn(8, "c08.purge") == 7 {
				ctl.PurgeAll()
			}
			p2 := parser.GetParser()
			if p2 == ps {
				r.Probes["pool-returned-the-same-instance"]++
				if cfg.Dialect != "" || cfg.Strict {
					r.Probes["pool-returned-instance-last-configured-with-options"]++
				}
			}
			p.pkgLevel(r, src, ctl, fmt.Sprintf("parser put by a holder configured %+v", cfg))
			ctl.Mode, ctl.Only = pool.AlwaysMiss, nil
			ps = p2
			cfg = probe.ParCfg{}
			kinds += "Put+Get "
			r.Tracef(trace, "parser.PutParser(p); p = parser.GetParser()  // new holder")
			r.Faults["history.put-get"]++
			if calls > 0 {
				reused = true
			}
			check("Put+Get", false)
		}
	}
	check("end", false)
	r.Nontrivial = n >= 2 && reused
}

func conversion(ptoks []token.Token, mtoks []models.TokenWithSpan) *parser.ConversionResult {
	cr := &parser.ConversionResult{Tokens: ptoks}
	for i := range ptoks {
		j := i
		if j >= len(mtoks) {
			j = len(mtoks) - 1
		}
		tp := parser.TokenPosition{OriginalIndex: j}
		if j >= 0 {
			tp.Start, tp.End, tp.SourceToken = mtoks[j].Start, mtoks[j].End, &mtoks[j]
		}
		cr.PositionMapping = append(cr.PositionMapping, tp)
	}
	return cr
}

// ------------------------------------------------------------------ batch entry points

func (p *P) batchRun(r *core.Result, src *tape.Source, ctl *pool.Ctl, trace bool) {
	g := gen.G{S: src}
	n := 2 + src.Intn(5, "c08.batch")
	list := make([]string, n)
	for i := range list {
		list[i] = p.histInput(g)
	}
	// alone, on pristine state
	type alone struct {
		canon string
		err   error
	}
	al := make([]alone, n)
	firstFail := -1
	for i, q := range list {
		simhook.PurgeAll()
		a, err := gosqlx.Parse(q)
		var t any
		if a != nil {
			t = a
		}
		al[i] = alone{canon.Of(t), err}
		if err != nil && firstFail < 0 {
			firstFail = i
		}
	}
	// the pool may hand the batch a used tokenizer: a previous holder's put
	if src.Intn(2, "c08.dirty") == 1 {
		t := tokenizer.GetTokenizer()
		t.SetDialect(dialects[src.Intn(len(dialects), "c08.dialect")])
		t.Tokenize([]byte(list[0]))
		tokenizer.PutTokenizer(t)
		ctl.Mode, ctl.Only = pool.HitNewest, instancePools
		r.Faults["history.put-get"]++
	}
	r.Tracef(trace, fmt.Sprintf("gosqlx.ParseMultiple/ValidateMultiple(%q) pool=%s", list, ctl.Mode))
	trees, err := gosqlx.ParseMultiple(list)
	verr := gosqlx.ValidateMultiple(list)
	ctl.Mode, ctl.Only = pool.AlwaysMiss, nil
	r.Evals += 2
	strip := func(e error) string {
		s := e.Error()
		for _, pre := range []string{"parsing failed: ", "tokenization failed: "} {
			s = strings.TrimPrefix(s, pre)
		}
		return s
	}
	if firstFail < 0 {
		if err != nil || verr != nil {
			r.Fail("batch-equals-alone", "spurious-error", fmt.Sprintf("every query of %q parses alone but the batch fails: %v / %v", list, err, verr))
		} else if len(trees) != n {
			r.Fail("batch-equals-alone", "tree-count", fmt.Sprintf("batch of %d returned %d trees", n, len(trees)))
		} else {
			for i := range trees {
				if c := canon.Of(trees[i]); c != al[i].canon {
					r.Fail("batch-equals-alone", "tree", fmt.Sprintf("element %d of ParseMultiple(%q) differs from Parse alone: %s", i, list, canon.Diff(c, al[i].canon)))
				}
			}
		}
	} else {
		want := fmt.Sprintf("query %d: %s", firstFail, al[firstFail].err.Error())
		if err == nil || trees != nil {
			r.Fail("batch-equals-alone", "missing-error", fmt.Sprintf("query %d of %q fails alone (%v) but ParseMultiple returned err=%v", firstFail, list, al[firstFail].err, err))
		} else if err.Error() != want {
			r.Fail("batch-equals-alone", "ParseMultiple error", fmt.Sprintf("ParseMultiple(%q) failed with %q, want %q (first failing query alone)", list, err.Error(), want))
		}
		wantV := fmt.Sprintf("query %d: %s", firstFail, strip(al[firstFail].err))
		if verr == nil {
			r.Fail("batch-equals-alone", "missing-error", fmt.Sprintf("query %d of %q fails alone but ValidateMultiple returned nil", firstFail, list))
		} else if verr.Error() != wantV {
			r.Fail("batch-equals-alone", "ValidateMultiple error", fmt.Sprintf("ValidateMultiple(%q) failed with %q, want %q", list, verr.Error(), wantV))
		}
		r.Faults["history.failed-call"]++
	}
	r.Nontrivial = true
}

func clip(s string) string {
	if len(s) > 70 {
		return s[:70] + "…"
	}
	return s
}
