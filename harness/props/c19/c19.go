// Package c19: CLI verdicts match the library; files are never left
// half-written. The system under simulation is the real gosqlx binary (built
// from the working tree, uninstrumented) in a fresh scratch directory; the
// "disk" is the kernel file system and faults are injected at the syscall
// boundary: strace -e inject (error return or SIGKILL at the n-th file-mutating
// syscall) and prlimit --fsize (torn write at byte k). For every explored
// scenario the fault points of its trace are enumerated completely.
package c19

import (
	"bytes"
	"encoding/json"
	"fmt"
	"github.com/ajitpratap0/GoSQLX/pkg/security"
	"os"
	"os/exec"
	"path/filepath"
	"regexp"
	"sort"
	"strconv"
	"strings"
	"syscall"
	"time"

	"github.com/ajitpratap0/GoSQLX/pkg/gosqlx"
	"github.com/ajitpratap0/GoSQLX/pkg/linter"
	lkeywords "github.com/ajitpratap0/GoSQLX/pkg/linter/rules/keywords"
	"github.com/ajitpratap0/GoSQLX/pkg/linter/rules/style"
	"github.com/ajitpratap0/GoSQLX/pkg/linter/rules/whitespace"
	"github.com/ajitpratap0/GoSQLX/pkg/models"
	"github.com/ajitpratap0/GoSQLX/pkg/sql/keywords"
	"github.com/ajitpratap0/GoSQLX/pkg/sql/parser"
	"github.com/ajitpratap0/GoSQLX/pkg/sql/tokenizer"

	"verif/sim/canon"
	"verif/sim/core"
	"verif/sim/tape"
)

type P struct {
	env     *core.Env
	bin     string
	strace  bool
	runSeq  int
	workDir string
}

func New() core.Property { return &P{} }

func (p *P) ID() string    { return "C19" }
func (p *P) Level() string { return "fault_enumeration" }
func (p *P) Rule() string {
	return "one case = a scenario: 1-4 files (valid canonical / valid unformatted / invalid / empty / blank / comment-only / lint-dirty / multi-statement / dialect- and strict-sensitive / non-ASCII / long / derived canonical, CRLF and trailing-newline forms / statement kinds the CLI formatter lacks / symbolic link / missing / twins in two directories; random permission bits) + a command line (format [-i|--check|both|-o F] [--compact] [--indent n] [--max-line n] [--no-uppercase] [-v]; lint [--auto-fix] [--fail-on-warn] [--max-length n] [--security] [-o F]; validate [--quiet|--check] [--strict] [--dialect d] [--output-format text|json|sarif] [--output-file F] [--stats] [-v]; parse [-f json|yaml|tree|table] [--ast|--tree|--tokens] [-o F]; files, a directory walk (-r) with decoys, inline SQL or stdin). Fault-free oracles on every scenario; for every in-place or file-producing scenario ALL fault points of its syscall trace are enumerated: SIGKILL before each file-mutating syscall and after the last, ENOSPC/EIO at each, and a torn write (RLIMIT_FSIZE) at every byte offset of the output (thorough, outputs <= 512 B) or at {0,1,len/2,len-1} + 2 sampled offsets (quick). non-trivial = the scenario has at least one non-empty file and the command ran to a verdict; distinct = distinct (command line, file contents) (tape hash)"
}
func (p *P) Runs(tier string) int {
	if tier == "thorough" {
		return 40000
	}
	return 1100
}

// ShrinkBudget: one evaluation re-enumerates all fault points of a scenario
// (dozens of traced process runs), so shrinking is kept short.
func (p *P) ShrinkBudget() (int, time.Duration) { return 10, 25 * time.Second }

func (p *P) Init(env *core.Env) error {
	p.env = env
	p.bin = filepath.Join(env.Scratch, "gosqlx")
	if b := os.Getenv("VERIF_GOSQLX"); b != "" {
		p.bin = b
	}
	if _, err := os.Stat(p.bin); err != nil {
		// replay/one roles get a private scratch: look one level up
		alt := filepath.Join(filepath.Dir(env.Scratch), "gosqlx")
		if _, err2 := os.Stat(alt); err2 == nil {
			p.bin = alt
		} else {
			return fmt.Errorf("gosqlx binary not found at %s", p.bin)
		}
	}
	p.workDir = filepath.Join(env.Scratch, fmt.Sprintf("c19.%d", os.Getpid()))
	if err := os.MkdirAll(p.workDir, 0o755); err != nil {
		return err
	}
	// canary: is ptrace/strace usable here?
	out, err := exec.Command("strace", "-f", "-o", "/dev/null", "-e", "trace=write", "-e", "inject=write:error=ENOSPC:when=99", "true").CombinedOutput()
	p.strace = err == nil
	if !p.strace {
		fmt.Fprintf(os.Stderr, "c19: strace unavailable (%v: %s): falling back to prlimit-only torn-write faults\n", err, strings.TrimSpace(string(out)))
	}
	if _, err := exec.LookPath("prlimit"); err != nil {
		return fmt.Errorf("neither strace nor prlimit usable")
	}
	return nil
}

func (p *P) Assumptions() []string {
	return []string{
		"the durable state is the kernel file system as seen after the process ended (process interruption and failed writes, not power loss: no fsync model)",
		"SIGKILL is injected on entry to a syscall, i.e. after the previous one completed: crash points at syscall granularity; byte granularity inside a write is covered by RLIMIT_FSIZE torn writes",
		"every strace injection is verified in the faulted run's own trace (the (INJECTED)/killed marker on the intended path); strace counts invocations per thread and the Go runtime may move the goroutine between threads, so an injection can land on another call: an unverifiable injection is retried up to 3 times, then dropped and counted, never judged",
		"library verdicts are computed in-process with the same dialect entry point; blank inputs are excluded from the exit-status equivalence (entry points document success for them)",
		"lint rules L006/L009 have map-order-dependent messages; only the presence of error/warning severities is compared, never counts or texts",
	}
}
func (p *P) Components() map[string]string {
	return map[string]string{
		"gosqlx CLI binary":      "real code, completely unmodified, built from the working tree with the pinned toolchain",
		"file system":            "real kernel FS in a scratch directory",
		"process + disk faults":  "strace -e inject (errno / SIGKILL at n-th syscall) and prlimit --fsize (torn write at byte k)",
		"library verdict oracle": "real library linked into the harness",
	}
}

// ---------------------------------------------------------------- scenario

type fileSpec struct {
	Name     string
	Content  string
	Mode     os.FileMode
	Kind     string
	Link     bool // the input path is a symbolic link to <Name>.target
	resolved bool
}

type scenario struct {
	Files      []fileSpec
	Cmd        string
	Args       []string // full argv after the binary
	Stdin      *string
	OutFile    string  // -o / --output-file target ("" = none)
	OutPre     *string // pre-existing content of OutFile (nil = absent)
	InPlace    bool
	AutoFix    bool
	Dialect    string
	Strict     bool
	FailOnWarn bool
	MaxLen     int
	Format     string // validate output format
	Check      bool
	UsesFiles  bool
	Security   bool // lint --security
	TokensOnly bool // parse --tokens: the command only tokenizes
	DirMode    bool // inputs given as a directory with -r
	Unstable   bool // stdout contains timings (--stats): not part of the replay log hash
}

var fileKinds = []struct{ kind, content string }{
	{"valid-canonical", "SELECT\n  a\nFROM t\n"},
	{"valid-unformatted", "select a,b from t where a=1"},
	{"valid-unformatted", "SELECT id, name FROM users u JOIN orders o ON u.id = o.user_id WHERE o.total > 10 ORDER BY name"},
	{"valid-unformatted", "insert into t (a, b) values (1, 'x');\nupdate t set a = 2 where b = 'y';\n"},
	{"invalid", "SELECT FROM WHERE"},
	{"invalid", "SELECT a FROM t WHERE (a = 1"},
	{"invalid", "SELECT 'unterminated FROM t"},
	{"empty", ""},
	{"blank", "  \n\t\n"},
	{"lint-dirty", "select a from t   \n\twhere a = 1\n    and b = 2\n\n\n\nselect 2\n"},
	{"lint-dirty", "SELECT a , b\nFROM t\t \nwhere x = 1\n"},
	{"valid-multi", "SELECT 1;\nSELECT 2;\n"},
	{"dialect-sensitive", "SELECT * FROM t LIMIT 10, 20"},
	{"strict-sensitive", "SELECT 1;;\n"},
	{"non-ascii", "SELECT 'é😀' AS \"ключ\" FROM t"},
	{"long", "SELECT " + strings.Repeat("col_a, ", 60) + "col_z FROM some_table WHERE x = 1"},
	// parse fine but are rejected at the CLI formatter stage, after something was rendered
	{"formatter-unsupported", "DELETE FROM staging WHERE batch = 1;\nTRUNCATE TABLE audit_log;\n"},
	{"formatter-unsupported", "SELECT 1;\nSHOW TABLES;\n"},
	{"formatter-unsupported", "WITH c AS (SELECT a FROM t) SELECT a FROM c;\nDESCRIBE t;\n"},
	{"formatter-unsupported", "SELECT id FROM t;\nREPLACE INTO t (id, name) VALUES (1, 'a');\n"},
	// derived at run time from what the binary itself prints for the base text (same options)
	{"derived:canonical", "select a,b from t where a=1"},
	{"derived:canonical-crlf", "select a,b from t where a=1 and b in (1,2)"},
	{"derived:canonical-crlf", "insert into t (a, b) values (1, 'x')"},
	{"derived:canonical-trailing-newline", "select a from t order by a"},
	{"comment-only", "-- just a comment, no statement\n"},
	{"comment-only", "/* a block comment */\n\n-- and a line comment"},
	{"with-comments", "-- leading\nselect a, /* mid */ b from t -- trailing\nwhere a = 1;\n"},
}

func genScenario(src *tape.Source) *scenario {
	sc := &scenario{}
	nf := 1 + src.Intn(4, "c19.nfiles")
	for i := 0; i < nf; i++ {
		k := fileKinds[src.Intn(len(fileKinds), "c19.kind")]
		mode := []os.FileMode{0o644, 0o600, 0o664, 0o755}[src.Intn(4, "c19.mode")]
		sc.Files = append(sc.Files, fileSpec{Name: fmt.Sprintf("f%d.sql", i), Content: k.content, Mode: mode, Kind: k.kind})
	}
	names := func() []string {
		var n []string
		for _, f := range sc.Files {
			n = append(n, f.Name)
		}
		return n
	}
	input := src.Intn(8, "c19.input") // 0-5 files, 6 stdin, 7 inline
	switch src.Intn(4, "c19.cmd") {
	case 0:
		sc.Cmd = "format"
		sc.Args = []string{"format"}
		mode := src.Intn(6, "c19.fmode")
		if input >= 6 && (mode == 1 || mode >= 4) {
			mode = 0
		}
		switch mode {
		case 4: // --check together with -i: check-only wins, nothing may be written
			sc.Check = true
			sc.Args = append(sc.Args, "--check", "-i")
		case 5:
			sc.Check = true
			sc.Args = append(sc.Args, "-i", "--check")
		case 1:
			sc.InPlace = true
			sc.Args = append(sc.Args, "-i")
		case 2:
			sc.Check = true
			sc.Args = append(sc.Args, "--check")
		case 3:
			sc.OutFile = "out.sql"
			sc.Args = append(sc.Args, "-o", "out.sql")
		}
		if src.Intn(3, "c19.compact") == 2 {
			sc.Args = append(sc.Args, "--compact")
		}
		if src.Intn(3, "c19.indent") == 2 {
			sc.Args = append(sc.Args, "--indent", strconv.Itoa([]int{4, 0, 8}[src.Intn(3, "c19.indentn")]))
		}
		switch src.Intn(8, "c19.fextra") {
		case 4:
			sc.Args = append(sc.Args, "--max-line", []string{"20", "40"}[src.Intn(2, "c19.maxline")])
		case 5:
			sc.Args = append(sc.Args, "--no-uppercase")
		case 6:
			sc.Args = append(sc.Args, "--uppercase=false")
		case 7:
			sc.Args = append(sc.Args, "-v")
		}
	case 1:
		sc.Cmd = "lint"
		sc.Args = []string{"lint"}
		if src.Intn(2, "c19.autofix") == 1 && input < 6 {
			sc.AutoFix = true
			sc.Args = append(sc.Args, "--auto-fix")
		}
		if src.Intn(3, "c19.fow") == 2 {
			sc.FailOnWarn = true
			sc.Args = append(sc.Args, "--fail-on-warn")
		}
		sc.MaxLen = 100
		if src.Intn(3, "c19.maxlen") == 2 {
			sc.MaxLen = 40
			sc.Args = append(sc.Args, "--max-length", "40")
		}
		if !sc.AutoFix && src.Intn(4, "c19.lintout") == 3 {
			// the report goes to a file (global -o): same verdict, and the file is never half-written
			sc.OutFile = "lint.out"
			sc.Args = append(sc.Args, "-o", "lint.out")
		}
		if !sc.AutoFix && input < 6 && src.Intn(4, "c19.security") == 3 {
			// the security scanner's findings fail the run too (file mode only)
			sc.Security = true
			sc.Args = append(sc.Args, "--security")
		}
	case 2:
		sc.Cmd = "validate"
		sc.Args = []string{"validate"}
		switch src.Intn(4, "c19.q") {
		case 1:
			sc.Args = append(sc.Args, "--quiet")
		case 2:
			sc.Args = append(sc.Args, "--check")
		}
		if src.Intn(4, "c19.strict") == 3 {
			sc.Strict = true
			sc.Args = append(sc.Args, "--strict")
		}
		if src.Intn(3, "c19.dialect") == 2 {
			sc.Dialect = []string{"mysql", "postgresql", "sqlserver", "sqlite"}[src.Intn(4, "c19.d")]
			sc.Args = append(sc.Args, "--dialect", sc.Dialect)
		}
		if sc.Strict && sc.Dialect == "" && src.Intn(2, "c19.strictdialect") == 1 {
			// both options together: every input path has to honour both of them
			sc.Dialect = []string{"mysql", "postgresql", "sqlserver", "sqlite"}[src.Intn(4, "c19.d2")]
			sc.Args = append(sc.Args, "--dialect", sc.Dialect)
		}
		if (sc.Strict || sc.Dialect != "") && src.Intn(2, "c19.sensitive") == 1 {
			// an option only matters on a text it decides: the first input (the one
			// that is given inline or on stdin) is one that the option decides
			k := "SELECT * FROM t LIMIT 10, 20"
			if sc.Strict && (sc.Dialect == "" || src.Intn(3, "c19.sensitivekind") > 0) {
				k = "SELECT 1;;\n"
			}
			kind := "dialect-sensitive"
			if k[7] == '1' {
				kind = "strict-sensitive"
			}
			sc.Files[0].Content, sc.Files[0].Kind = k, kind
		}
		sc.Format = []string{"text", "json", "sarif"}[src.Intn(3, "c19.of")]
		if sc.Format != "text" {
			sc.Args = append(sc.Args, "--output-format", sc.Format)
			if src.Intn(3, "c19.ofile") == 2 && input < 7 {
				sc.OutFile = "report.out"
				sc.Args = append(sc.Args, "--output-file", "report.out")
			}
		}
		switch src.Intn(10, "c19.vextra") {
		case 6, 7, 8:
			if sc.OutFile == "" { // a report file with timings in it has no reproducible "complete new content"
				sc.Unstable = true
				sc.Args = append(sc.Args, "--stats")
			}
		case 9:
			sc.Args = append(sc.Args, "-v")
		}
	default:
		sc.Cmd = "parse"
		sc.Args = []string{"parse"}
		switch src.Intn(8, "c19.pjson") {
		case 1, 2, 3:
			sc.Args = append(sc.Args, "-f", "json")
		case 4:
			sc.Args = append(sc.Args, "-f", []string{"yaml", "tree", "table"}[src.Intn(3, "c19.pfmt")])
		case 5:
			sc.Args = append(sc.Args, []string{"--ast", "--tree"}[src.Intn(2, "c19.pview")])
		case 6:
			sc.TokensOnly = true
			sc.Args = append(sc.Args, "--tokens")
		}
		if src.Intn(5, "c19.parseout") == 4 {
			sc.OutFile = "parse.out"
			sc.Args = append(sc.Args, "-o", "parse.out")
		}
		if input < 6 {
			sc.Files = sc.Files[:1]
		}
	}
	if sc.Cmd == "format" && sc.OutFile != "" {
		// -o with several inputs rewrites the output once per input: every
		// intermediate content is a complete one. One input = one write, which is
		// what the half-written oracle is about.
		sc.Files = sc.Files[:1]
	}
	if (sc.Cmd == "validate" || sc.Cmd == "lint") && input < 6 && src.Intn(6, "c19.missing") == 5 {
		// an input that cannot be read at all: it fails, and reports must name it -
		// wherever it stands among the arguments
		at := src.Intn(len(sc.Files)+1, "c19.missingat")
		fs := append([]fileSpec{}, sc.Files[:at]...)
		fs = append(fs, fileSpec{Name: "missing.sql", Kind: "missing"})
		sc.Files = append(fs, sc.Files[at:]...)
	}
	if sc.OutFile != "" && src.Intn(2, "c19.outpre") == 1 {
		s := "-- previous output that must not be half-overwritten\nSELECT 'old';\n"
		sc.OutPre = &s
	}
	hasMissing := false
	for _, f := range sc.Files {
		hasMissing = hasMissing || f.Kind == "missing"
	}
	if dm := src.Intn(6, "c19.dirmode"); input < 6 && (sc.Cmd == "validate" || sc.Cmd == "lint") && (dm == 5 || hasMissing && dm >= 3) {
		// the inputs are found by walking a directory: every matching file at any
		// depth counts, nothing else does
		sc.DirMode = true
		for i := range sc.Files {
			if sc.Files[i].Kind == "missing" {
				continue
			}
			sc.Files[i].Name = []string{"d/", "d/sub/", "d/sub/deeper/", "d/[old]/", "d/v1?/"}[src.Intn(5, "c19.depth")] + sc.Files[i].Name
		}
		if len(sc.Files) >= 2 && sc.Files[0].Kind != "missing" && sc.Files[1].Kind != "missing" && src.Intn(3, "c19.twins") == 2 {
			// the same file name (and text) in two directories: two inputs, not one
			sc.Files[0].Name = "d/a/q.sql"
			sc.Files[1].Name = "d/b/q.sql"
			sc.Files[1].Content, sc.Files[1].Kind = sc.Files[0].Content, sc.Files[0].Kind
		}
	}
	if input < 6 && !sc.DirMode && sc.Files[0].Kind != "missing" && src.Intn(8, "c19.symlink") == 7 {
		sc.Files[0].Link = true
		if src.Intn(3, "c19.linkempty") == 2 {
			// refused AND empty: neither property of the input may hide the other
			sc.Files[0].Content, sc.Files[0].Kind = "", "empty"
		}
	}
	switch {
	case input == 6 && src.Intn(40, "c19.hugestdin") == 39:
		// more than the documented 10 MiB stdin limit: must be refused, never cut
		s := "SELECT 1;\n-- " + strings.Repeat("x", 10*1024*1024+16) + "\n"
		sc.Stdin = &s
		sc.Files = []fileSpec{{Name: "f0.sql", Content: s, Mode: 0o644, Kind: "stdin-over-10MiB"}}
		sc.Args = append(sc.Args, "-")
	case input == 6:
		s := sc.Files[0].Content
		sc.Stdin = &s
		sc.Files = sc.Files[:1]
		if sc.Cmd != "validate" || src.Intn(2, "c19.dash") == 1 {
			sc.Args = append(sc.Args, "-")
		}
	case input == 7 && !strings.HasPrefix(sc.Files[0].Kind, "derived:") && (strings.HasPrefix(strings.ToUpper(sc.Files[0].Content), "SELECT ") || strings.HasPrefix(strings.ToUpper(sc.Files[0].Content), "INSERT ")):
		sc.Files = sc.Files[:1]
		sc.Args = append(sc.Args, sc.Files[0].Content)
	default:
		sc.UsesFiles = true
		switch {
		case sc.Cmd == "parse":
			sc.Args = append(sc.Args, sc.Files[0].Name)
		case sc.DirMode:
			first := src.Intn(2, "c19.missingfirst") == 1
			for _, f := range sc.Files {
				if f.Kind == "missing" && first {
					sc.Args = append(sc.Args, f.Name)
				}
			}
			sc.Args = append(sc.Args, "-r", "d")
			for _, f := range sc.Files {
				if f.Kind == "missing" && !first {
					sc.Args = append(sc.Args, f.Name)
				}
			}
		default:
			sc.Args = append(sc.Args, names()...)
		}
	}
	return sc
}

func (sc *scenario) inputs() []fileSpec { return sc.Files }

func (sc *scenario) String() string {
	var fs []string
	for _, f := range sc.Files {
		ln := ""
		if f.Link {
			ln = ",symlink"
		}
		fs = append(fs, fmt.Sprintf("%s(%s,%o%s)=%q", f.Name, f.Kind, f.Mode, ln, clip(f.Content, 50)))
	}
	s := "gosqlx " + strings.Join(quoteArgs(sc.Args), " ")
	if sc.Stdin != nil {
		s += " <stdin"
	}
	if sc.OutPre != nil {
		s += " [output file pre-exists]"
	}
	return s + " | files: " + strings.Join(fs, "; ")
}

func quoteArgs(a []string) []string {
	out := make([]string, len(a))
	for i, s := range a {
		if strings.ContainsAny(s, " \n'\"") {
			out[i] = strconv.Quote(clip(s, 60))
		} else {
			out[i] = s
		}
	}
	return out
}

func clip(s string, n int) string {
	if len(s) > n {
		return s[:n] + "…"
	}
	return s
}

// ---------------------------------------------------------------- execution

type fileState struct {
	Exists  bool
	Content string
	Mode    os.FileMode
	MTime   time.Time
}

type outcome struct {
	Exit   int
	Killed bool
	Stdout string
	Stderr string
	Files  map[string]fileState
	Trace  string
}

func (p *P) setup(sc *scenario) (dir string, err error) {
	p.runSeq++
	dir = filepath.Join(p.workDir, fmt.Sprintf("r%d", p.runSeq))
	if err = os.MkdirAll(filepath.Join(dir, "home"), 0o755); err != nil {
		return
	}
	old := time.Now().Add(-48 * time.Hour).Truncate(time.Second)
	if sc.UsesFiles || sc.Stdin == nil {
		for _, f := range sc.Files {
			if f.Kind == "missing" {
				continue
			}
			fp := filepath.Join(dir, f.Name)
			if err = os.MkdirAll(filepath.Dir(fp), 0o755); err != nil {
				return
			}
			if f.Link {
				if err = os.Symlink(filepath.Base(f.Name)+".target", fp); err != nil {
					return
				}
				fp += ".target"
			}
			if err = os.WriteFile(fp, []byte(f.Content), f.Mode); err != nil {
				return
			}
			os.Chmod(fp, f.Mode)
			os.Chtimes(fp, old, old)
		}
		if sc.DirMode {
			// decoys a directory walk must not judge: wrong extension, and a directory named like a match
			os.WriteFile(filepath.Join(dir, "d", "notes.txt"), []byte("SELECT FROM WHERE"), 0o644)
			os.MkdirAll(filepath.Join(dir, "d", "dir.sql"), 0o755)
			os.WriteFile(filepath.Join(dir, "outside.sql"), []byte("SELECT FROM WHERE"), 0o644)
			os.Chtimes(filepath.Join(dir, "outside.sql"), old, old)
		}
	}
	if sc.OutPre != nil {
		fp := filepath.Join(dir, sc.OutFile)
		os.WriteFile(fp, []byte(*sc.OutPre), 0o644)
		os.Chtimes(fp, old, old)
	}
	return
}

func snapshot(dir string) map[string]fileState {
	m := map[string]fileState{}
	filepath.Walk(dir, func(path string, li os.FileInfo, err error) error {
		if err != nil {
			return nil
		}
		rel, _ := filepath.Rel(dir, path)
		if li.IsDir() {
			if rel == "home" {
				return filepath.SkipDir
			}
			return nil
		}
		info, err := os.Stat(path) // what a reader of the path sees (follows a symbolic link)
		if err != nil || info.IsDir() {
			return nil
		}
		b, err := os.ReadFile(path)
		if err != nil {
			return nil
		}
		m[rel] = fileState{true, string(b), info.Mode().Perm(), info.ModTime()}
		return nil
	})
	return m
}

// run executes the binary in a fresh copy of the scenario, optionally wrapped
// in a fault injector (prefix argv) and returns what a user would observe.
func (p *P) run(sc *scenario, wrap []string, traceFile bool) (*outcome, string, error) {
	dir, err := p.setup(sc)
	if err != nil {
		return nil, "", err
	}
	argv := append([]string{}, wrap...)
	tf := ""
	if traceFile {
		tf = filepath.Join(dir, "home", "trace.txt")
		for i, a := range argv {
			if a == "@TRACE@" {
				argv[i] = tf
			}
		}
	}
	argv = append(argv, p.bin)
	argv = append(argv, sc.Args...)
	cmd := exec.Command(argv[0], argv[1:]...)
	cmd.Dir = dir
	cmd.Env = []string{"HOME=" + filepath.Join(dir, "home"), "PATH=/usr/bin:/bin", "GOMAXPROCS=1", "NO_COLOR=1", "TMPDIR=" + filepath.Join(dir, "home")}
	var so, se bytes.Buffer
	cmd.Stdout, cmd.Stderr = &so, &se
	if sc.Stdin != nil {
		cmd.Stdin = strings.NewReader(*sc.Stdin)
	}
	done := make(chan error, 1)
	if err := cmd.Start(); err != nil {
		return nil, dir, err
	}
	go func() { done <- cmd.Wait() }()
	var werr error
	select {
	case werr = <-done:
	case <-time.After(60 * time.Second):
		cmd.Process.Kill()
		<-done
		return nil, dir, fmt.Errorf("timeout running %v", argv)
	}
	o := &outcome{Stdout: so.String(), Stderr: se.String(), Files: snapshot(dir)}
	if ee, ok := werr.(*exec.ExitError); ok {
		o.Exit = ee.ExitCode()
		if ws, ok := ee.Sys().(syscall.WaitStatus); ok && ws.Signaled() {
			o.Killed = true
		}
	} else if werr != nil {
		return nil, dir, werr
	}
	if tf != "" {
		b, _ := os.ReadFile(tf)
		o.Trace = string(b)
	}
	return o, dir, nil
}

// formatOpts returns the formatting options of a format command line (without
// mode flags, output target and file arguments).
func (sc *scenario) formatOpts() []string {
	var opt []string
	if sc.Cmd != "format" {
		return nil
	}
	for i := 1; i < len(sc.Args); i++ {
		a := sc.Args[i]
		switch a {
		case "-i", "--check", "-":
			continue
		case "-o":
			i++
			continue
		}
		if strings.HasSuffix(a, ".sql") || strings.ContainsAny(a, " \n") {
			continue
		}
		opt = append(opt, a)
	}
	return opt
}

// resolveDerived replaces the content of "derived:*" files by a text derived
// from what the binary prints for the base text with the scenario's options:
// the canonical form itself, the canonical form with CRLF line endings and no
// final newline, or with an extra final newline.
func (p *P) resolveDerived(sc *scenario) {
	for i := range sc.Files {
		f := &sc.Files[i]
		if !strings.HasPrefix(f.Kind, "derived:") || f.resolved {
			continue
		}
		f.resolved = true
		c := scenario{Cmd: "format", UsesFiles: true, Files: []fileSpec{{Name: "d.sql", Content: f.Content, Mode: 0o644}}}
		c.Args = append(append([]string{"format"}, sc.formatOpts()...), "d.sql")
		o, _, err := p.run(&c, nil, false)
		if err != nil || o.Exit != 0 || o.Stdout == "" {
			f.Kind = "valid-unformatted"
			continue
		}
		canonical := strings.TrimSuffix(o.Stdout, "\n")
		switch f.Kind {
		case "derived:canonical":
			f.Content = canonical
		case "derived:canonical-crlf":
			f.Content = strings.ReplaceAll(canonical, "\n", "\r\n")
		default:
			f.Content = canonical + "\n"
		}
		if sc.Stdin != nil && i == 0 {
			s := f.Content
			sc.Stdin = &s
		}
	}
}

// ---------------------------------------------------------------- library verdicts

func blank(s string) bool { return strings.TrimSpace(s) == "" }

func (sc *scenario) libAccepts(content string) bool {
	switch sc.Cmd {
	case "validate":
		if sc.Dialect != "" {
			return parser.ValidateBytesWithDialect([]byte(content), keywords.SQLDialect(sc.Dialect)) == nil
		}
		return parser.ValidateBytes([]byte(content)) == nil
	default:
		_, err := gosqlx.Parse(content)
		return err == nil
	}
}

func (sc *scenario) libAcceptsStrict(content string) bool {
	opts := []parser.ParserOption{parser.WithStrictMode()}
	if sc.Dialect != "" {
		opts = append(opts, parser.WithDialect(sc.Dialect))
	}
	t := gosqlxTokenize(content, sc.Dialect)
	if t == nil {
		return false
	}
	_, err := parser.NewParser(opts...).ParseFromModelTokens(t)
	return err == nil
}

func (sc *scenario) lintSeverities(content string) (hasErr, hasWarn, fileErr bool) {
	l := linter.New(
		whitespace.NewTrailingWhitespaceRule(), whitespace.NewMixedIndentationRule(), whitespace.NewConsecutiveBlankLinesRule(1),
		whitespace.NewIndentationDepthRule(4, 4), whitespace.NewLongLinesRule(sc.MaxLen), whitespace.NewRedundantWhitespaceRule(),
		style.NewColumnAlignmentRule(), style.NewCommaPlacementRule(style.CommaTrailing), style.NewAliasingConsistencyRule(true),
		lkeywords.NewKeywordCaseRule(lkeywords.CaseUpper))
	fr := l.LintString(content, "f.sql")
	if fr.Error != nil {
		fileErr = true
	}
	for _, v := range fr.Violations {
		switch v.Severity {
		case linter.SeverityError:
			hasErr = true
		case linter.SeverityWarning:
			hasWarn = true
		}
	}
	return
}

// ---------------------------------------------------------------- the run

func (p *P) Run(src *tape.Source, trace bool) *core.Result {
	r := core.NewResult()
	sc := genScenario(src)
	r.Tracef(trace, sc.String())
	r.CaseKey = canon.Hash(sc.String())
	defer func() {
		// scratch discipline: remove this run's directories
		ents, _ := os.ReadDir(p.workDir)
		for _, e := range ents {
			os.RemoveAll(filepath.Join(p.workDir, e.Name()))
		}
	}()
	p.resolveDerived(sc)
	r.CaseKey = canon.Hash(sc.String())
	base, _, err := p.run(sc, nil, false)
	if err != nil {
		r.Infra = "fault-free run failed: " + err.Error()
		return r
	}
	r.Tracef(trace, fmt.Sprintf("fault-free: exit=%d stdout=%q stderr=%q", base.Exit, clip(base.Stdout, 120), clip(base.Stderr, 160)))
	if base.Killed || base.Exit > 1 {
		r.Fail("verdict", sc.Cmd+" abnormal-exit", fmt.Sprintf("%s: exit status %d killed=%v stderr=%q", sc, base.Exit, base.Killed, clip(base.Stderr, 300)))
	}
	for _, f := range sc.Files {
		if !blank(f.Content) {
			r.Nontrivial = true
		}
	}
	p.verdictOracles(r, sc, base)
	mutating := sc.UsesFiles && (sc.InPlace || sc.AutoFix) || sc.OutFile != ""
	if sc.Cmd == "lint" && sc.OutFile != "" {
		// messages of L006/L009 depend on map order: such a report has no reproducible "complete new content"
		if out := base.Files[sc.OutFile].Content; strings.Contains(out, "L006") || strings.Contains(out, "L009") {
			mutating = false
		}
	}
	if mutating && len(r.Violations) == 0 {
		p.faultPasses(r, src, sc, base, trace)
	}
	r.LogHash = src.Hash() ^ uint64(base.Exit)
	if !sc.Unstable {
		r.LogHash ^= canon.Hash(base.Stdout)
	}
	return r
}

func (p *P) verdictOracles(r *core.Result, sc *scenario, base *outcome) {
	desc := sc.String()
	// inputs actually judged by the command
	var ins []fileSpec
	if sc.UsesFiles {
		ins = sc.Files
		if sc.Cmd == "parse" {
			ins = sc.Files[:1]
		}
	} else {
		ins = sc.Files[:1]
	}
	// ---- V1: exit status 0 <=> the library accepts every non-blank input (and no failing-severity finding)
	allAccepted, anyBlank := true, false
	rejected := map[string]bool{}
	// validate, format and parse refuse to read through symbolic links (documented
	// policy, docs/SECURITY.md): such an input is a failing input like an
	// unreadable file - it fails the run, is named by reports and never written.
	// lint has no such policy in either direction: its verdict is not judged for
	// a link, only what happens to the files.
	linkRefused := sc.Cmd != "lint"
	for _, f := range ins {
		if f.Kind == "missing" || (f.Link && linkRefused) {
			allAccepted = false
			rejected[f.Name] = true
			continue
		}
		if f.Link {
			anyBlank = true // lint + link: exit status not judged
		}
		if blank(f.Content) {
			anyBlank = true
			continue
		}
		ok := sc.libAccepts(f.Content)
		if sc.Cmd == "validate" && sc.Strict && ok && !sc.libAcceptsStrict(f.Content) {
			ok = false
		}
		if !ok {
			allAccepted = false
			rejected[f.Name] = true
		}
	}
	switch sc.Cmd {
	case "validate", "parse":
		if sc.TokensOnly {
			// --tokens stops after tokenizing: it must succeed for what the library
			// accepts and fail for what the tokenizer rejects; in between either
			tokFail := false
			for _, f := range ins {
				if f.Kind != "missing" && !blank(f.Content) && gosqlxTokenize(f.Content, "") == nil {
					tokFail = true
				}
			}
			if !anyBlank && ((allAccepted && base.Exit != 0) || (tokFail && base.Exit == 0)) {
				r.Fail("verdict", "parse --tokens exit status", fmt.Sprintf("%s: exit status %d, library accepts=%v tokenizer rejects=%v; stderr %q", desc, base.Exit, allAccepted, tokFail, clip(base.Stderr, 200)))
			}
			break
		}
		if !anyBlank || !allAccepted {
			if want := allAccepted; (base.Exit == 0) != want {
				why := "exit status"
				if sc.Strict {
					why = "exit status (--strict)"
				}
				r.Fail("verdict", sc.Cmd+" "+why, fmt.Sprintf("%s: exit status %d but the library %s the inputs (rejected: %v); stderr %q", desc, base.Exit, map[bool]string{true: "accepts all of", false: "rejects some of"}[want], keysOf(rejected), clip(base.Stderr, 200)))
			}
		}
	case "format":
		if !sc.Check && !anyBlank {
			if (base.Exit == 0) != allAccepted {
				sig := "format exit status"
				if m := unsupportedRe.FindStringSubmatch(base.Stderr); m != nil && allAccepted {
					// the CLI's own formatter cannot render a statement the library parses
					sig = "format exit status: CLI formatter rejects " + m[1]
				}
				r.Fail("verdict", sig, fmt.Sprintf("%s: exit status %d but the library %s the inputs; stderr %q", desc, base.Exit, map[bool]string{true: "accepts all of", false: "rejects some of"}[allAccepted], clip(base.Stderr, 200)))
			}
		}
		if sc.Check && !allAccepted && base.Exit == 0 {
			r.Fail("verdict", "format --check exit status", fmt.Sprintf("%s: --check exits 0 although the library rejects %v", desc, keysOf(rejected)))
		}
	case "lint":
		hasErr, hasWarn, fileErr := false, false, false
		for _, f := range ins {
			if f.Kind == "missing" {
				fileErr = true // a path that cannot be read or walked fails the run
				continue
			}
			e, w, fe := sc.lintSeverities(f.Content)
			hasErr, hasWarn, fileErr = hasErr || e, hasWarn || w, fileErr || fe
		}
		want := !fileErr && !hasErr && !(sc.FailOnWarn && hasWarn)
		if len(ins) == 1 && ins[0].Kind == "stdin-over-10MiB" {
			want = false // over the documented stdin limit: refused as unreadable input, never cut
		}
		if sc.Security {
			for _, f := range ins {
				if n := len(security.NewScanner().Scan(f.Content)); n > 0 {
					want = false
				}
			}
		}
		// after --auto-fix the verdict still refers to the findings of the original text (the command lints first)
		if !anyBlank && (base.Exit == 0) != want {
			r.Fail("verdict", "lint exit status", fmt.Sprintf("%s: exit status %d but the library linter reports errors=%v warnings=%v (fail-on-warn=%v); stderr %q", desc, base.Exit, hasErr, hasWarn, sc.FailOnWarn, clip(base.Stderr, 200)))
		}
	}
	// ---- V2: check-only modes never modify any file
	readOnly := !(sc.InPlace || sc.AutoFix)
	for _, f := range sc.Files {
		if !sc.UsesFiles {
			break
		}
		if f.Kind == "missing" {
			continue
		}
		st := base.Files[f.Name]
		changed := !st.Exists || st.Content != f.Content
		if readOnly && (changed || st.Mode != f.Mode.Perm() || time.Since(st.MTime) < 24*time.Hour) {
			r.Fail("check-only-never-writes", sc.Cmd+" modified-input", fmt.Sprintf("%s: a check-only command changed %s (content changed=%v mode %o->%o mtime touched=%v)", desc, f.Name, changed, f.Mode.Perm(), st.Mode, time.Since(st.MTime) < 24*time.Hour))
		}
		if f.Link {
			// a command that does not rewrite must not touch the link's target either
			tg := base.Files[f.Name+".target"]
			if readOnly && (!tg.Exists || tg.Content != f.Content) {
				r.Fail("check-only-never-writes", sc.Cmd+" modified-input", fmt.Sprintf("%s: a check-only command changed the target of the symbolic link %s", desc, f.Name))
			}
		}
		// ---- V5: in-place rewriting only when processing of that file succeeded
		if sc.InPlace && rejected[f.Name] && changed {
			r.Fail("in-place-only-on-success", "format -i rewrote-failed-file", fmt.Sprintf("%s: %s failed to parse but was rewritten to %q", desc, f.Name, clip(st.Content, 80)))
		}
	}
	if sc.DirMode {
		// what the walk must not pick up is neither judged (V1 above: the decoys are
		// invalid SQL) nor ever written
		for _, decoy := range []string{"d/notes.txt", "outside.sql"} {
			if st := base.Files[decoy]; !st.Exists || st.Content != "SELECT FROM WHERE" {
				r.Fail("check-only-never-writes", sc.Cmd+" modified-unselected-file", fmt.Sprintf("%s: %s, which the directory walk does not select, was changed to %q", desc, decoy, clip(st.Content, 60)))
			}
		}
	}
	// ---- V3: format stdout == format -i content, and --check consistent with both
	if sc.Cmd == "format" && sc.UsesFiles && len(sc.Files) >= 1 && !anyBlank {
		p.formatConsistency(r, sc, base)
	}
	// ---- V6: a multi-file run is the union of the single-file runs
	if sc.UsesFiles && len(sc.Files) >= 2 && sc.Cmd != "parse" && sc.OutFile == "" {
		p.independence(r, sc, base)
	}
	// ---- V4: machine-readable reports are well-formed and name exactly the failing inputs
	if sc.Cmd == "validate" && sc.Format != "text" && sc.UsesFiles {
		data := base.Stdout
		if sc.OutFile != "" {
			data = base.Files[sc.OutFile].Content
		}
		p.reportOracle(r, sc, data, rejected, ins)
	}
	if sc.Cmd == "validate" && sc.Format != "text" && !sc.UsesFiles && !anyBlank && ins[0].Kind != "stdin-over-10MiB" {
		// stdin / inline input: the report embeds a temporary name, so only its
		// well-formedness is judged - stdout (or the report file) is one JSON document
		data := base.Stdout
		if sc.OutFile != "" {
			data = base.Files[sc.OutFile].Content
		}
		if !json.Valid([]byte(data)) {
			r.Fail("report-well-formed", "validate "+sc.Format+" (stdin/inline)", fmt.Sprintf("%s: the %s report is not one well-formed JSON document: %q", desc, sc.Format, clip(data, 200)))
		}
	}
	if sc.Cmd == "parse" && contains(sc.Args, "json") && base.Exit == 0 {
		data := base.Stdout
		if sc.OutFile != "" && base.Stdout == "" {
			data = base.Files[sc.OutFile].Content // wherever the command put its output
		}
		if !json.Valid([]byte(data)) {
			r.Fail("report-well-formed", "parse -f json", fmt.Sprintf("%s: output is not valid JSON: %q", desc, clip(data, 200)))
		}
	}
}

func contains(a []string, s string) bool {
	for _, x := range a {
		if x == s {
			return true
		}
	}
	return false
}

func keysOf(m map[string]bool) []string {
	var k []string
	for s := range m {
		k = append(k, s)
	}
	sort.Strings(k)
	return k
}

func (p *P) formatConsistency(r *core.Result, sc *scenario, base *outcome) {
	// one file, same options: stdout of `format`, content written by `format -i`, verdict of `format --check`
	f := sc.Files[0]
	if blank(f.Content) {
		return
	}
	var opt []string
	for i := 1; i < len(sc.Args); i++ {
		a := sc.Args[i]
		switch a {
		case "-i", "--check":
			continue
		case "-o":
			i++
			continue
		}
		if strings.HasSuffix(a, ".sql") {
			continue
		}
		opt = append(opt, a)
	}
	mk := func(extra ...string) *scenario {
		c := *sc
		c.Files = []fileSpec{f}
		c.OutFile, c.OutPre, c.Stdin = "", nil, nil
		c.UsesFiles = true
		c.Args = append(append([]string{"format"}, extra...), append(append([]string{}, opt...), f.Name)...)
		return &c
	}
	so, _, e1 := p.run(mk(), nil, false)
	ip, _, e2 := p.run(mk("-i"), nil, false)
	ck, _, e3 := p.run(mk("--check"), nil, false)
	if e1 != nil || e2 != nil || e3 != nil {
		return
	}
	r.Evals += 3
	if so.Exit != 0 || ip.Exit != 0 {
		if (so.Exit == 0) != (ip.Exit == 0) {
			r.Fail("format-consistency", "stdout-vs-inplace exit", fmt.Sprintf("format %v %s: stdout mode exits %d, -i exits %d", opt, f.Name, so.Exit, ip.Exit))
		}
		return
	}
	written := ip.Files[f.Name].Content
	if strings.TrimSuffix(so.Stdout, "\n") != strings.TrimSuffix(written, "\n") {
		r.Fail("format-consistency", "stdout-vs-inplace text", fmt.Sprintf("format %v on %q prints %q but -i writes %q", opt, clip(f.Content, 60), clip(so.Stdout, 120), clip(written, 120)))
	}
	needs := written != f.Content
	if (ck.Exit != 0) != needs {
		r.Fail("format-consistency", "check-vs-inplace", fmt.Sprintf("format %v on %q: --check exits %d but -i %s the file (%q -> %q)", opt, clip(f.Content, 60), ck.Exit, map[bool]string{true: "changes", false: "does not change"}[needs], clip(f.Content, 60), clip(written, 60)))
	}
}

// independence: what a command does with one file does not depend on the
// other files of the same invocation – exit status is the OR of the single-file
// statuses, format prints the concatenation of what it prints for each file,
// and format -i / lint --auto-fix leave each file as a single-file run would.
func (p *P) independence(r *core.Result, sc *scenario, base *outcome) {
	for _, f := range sc.Files {
		if strings.ContainsAny(f.Name, "[?*") {
			return // given explicitly such a path is a glob pattern, not a file name
		}
	}
	var sumOut strings.Builder
	anyFail := false
	for _, f := range sc.Files {
		c := *sc
		c.Files = []fileSpec{f}
		var args []string
		for _, a := range sc.Args {
			isName := sc.DirMode && (a == "-r" || a == "d")
			for _, g := range sc.Files {
				if a == g.Name {
					isName = true
				}
			}
			if isName {
				continue
			}
			args = append(args, a)
		}
		c.Args = append(args, f.Name)
		o, _, err := p.run(&c, nil, false)
		if err != nil {
			return
		}
		r.Evals++
		if o.Exit != 0 {
			anyFail = true
		}
		sumOut.WriteString(o.Stdout)
		if sc.InPlace || sc.AutoFix {
			if got, want := base.Files[f.Name].Content, o.Files[f.Name].Content; got != want && !(sc.Cmd == "lint") {
				r.Fail("multi-file-independence", sc.Cmd+" in-place content", fmt.Sprintf("%s: %s ends up as %q in the multi-file run but as %q when processed alone", sc, f.Name, clip(got, 120), clip(want, 120)))
			}
		}
	}
	if (base.Exit != 0) != anyFail {
		r.Fail("multi-file-independence", sc.Cmd+" exit status", fmt.Sprintf("%s: exit status %d, but processing the files one by one fails=%v", sc, base.Exit, anyFail))
	}
	if sc.Cmd == "format" && !sc.InPlace && !sc.Check && base.Stdout != sumOut.String() {
		r.Fail("multi-file-independence", "format stdout", fmt.Sprintf("%s: prints %q, the files one by one print %q", sc, clip(base.Stdout, 200), clip(sumOut.String(), 200)))
	}
}

// matchInput maps a path named by a report to the input it denotes: the input
// whose name is the longest path suffix of it (reports may print absolute paths
// or URIs); unknown paths are returned as they are.
func matchInput(reported string, ins []fileSpec) string {
	rp := filepath.ToSlash(strings.TrimPrefix(reported, "file://"))
	best := ""
	for _, f := range ins {
		if (rp == f.Name || strings.HasSuffix(rp, "/"+f.Name)) && len(f.Name) > len(best) {
			best = f.Name
		}
	}
	if best == "" {
		return rp
	}
	return best
}

func (p *P) reportOracle(r *core.Result, sc *scenario, data string, rejected map[string]bool, ins []fileSpec) {
	// strip cobra's error/usage text that follows the report on stdout? it goes to stderr; stdout must be the report alone
	var named map[string]bool
	switch sc.Format {
	case "json":
		var rep struct {
			Errors []struct {
				File string `json:"file"`
			} `json:"errors"`
			Results struct {
				Valid        *bool `json:"valid"`
				InvalidFiles int   `json:"invalid_files"`
			} `json:"results"`
		}
		if err := json.Unmarshal([]byte(data), &rep); err != nil {
			r.Fail("report-well-formed", "validate json", fmt.Sprintf("%s: JSON report does not parse (%v): %q", sc, err, clip(data, 200)))
			return
		}
		named = map[string]bool{}
		for _, e := range rep.Errors {
			if named[matchInput(e.File, ins)] {
				r.Fail("report-names-failing-inputs", "validate json duplicate", fmt.Sprintf("%s: the JSON report lists %s more than once", sc, e.File))
			}
			named[matchInput(e.File, ins)] = true
		}
		if !sc.Strict && rep.Results.Valid != nil && *rep.Results.Valid != (len(rep.Errors) == 0) {
			r.Fail("report-names-failing-inputs", "validate json valid-flag", fmt.Sprintf("%s: results.valid=%v but the report lists %d errors", sc, *rep.Results.Valid, len(rep.Errors)))
		}
		if !sc.Strict && rep.Results.InvalidFiles != len(rep.Errors) {
			r.Fail("report-names-failing-inputs", "validate json count", fmt.Sprintf("%s: results.invalid_files=%d but the report lists %d errors", sc, rep.Results.InvalidFiles, len(rep.Errors)))
		}
	case "sarif":
		var rep struct {
			Version string `json:"version"`
			Runs    []struct {
				Results []struct {
					Locations []struct {
						PhysicalLocation struct {
							ArtifactLocation struct {
								URI string `json:"uri"`
							} `json:"artifactLocation"`
						} `json:"physicalLocation"`
					} `json:"locations"`
				} `json:"results"`
			} `json:"runs"`
		}
		if err := json.Unmarshal([]byte(data), &rep); err != nil || rep.Version == "" || len(rep.Runs) == 0 {
			r.Fail("report-well-formed", "validate sarif", fmt.Sprintf("%s: SARIF report does not parse (%v): %q", sc, err, clip(data, 200)))
			return
		}
		named = map[string]bool{}
		for _, run := range rep.Runs {
			for _, res := range run.Results {
				for _, l := range res.Locations {
					named[matchInput(l.PhysicalLocation.ArtifactLocation.URI, ins)] = true
				}
			}
		}
	}
	want := map[string]bool{}
	for _, f := range ins {
		if rejected[f.Name] {
			want[f.Name] = true
		}
		if blank(f.Content) && !rejected[f.Name] {
			delete(named, f.Name) // blank inputs: either verdict is accepted (as in the exit-status oracle)
		}
	}
	// the CLI cannot see --strict rejections if the option is not wired; that is judged by V1
	if sc.Strict {
		return
	}
	if fmt.Sprint(keysOf(named)) != fmt.Sprint(keysOf(want)) {
		r.Fail("report-names-failing-inputs", "validate "+sc.Format, fmt.Sprintf("%s: report names %v as failing, the library rejects %v", sc, keysOf(named), keysOf(want)))
	}
}

// ---------------------------------------------------------------- fault passes

type event struct {
	Tid     string
	Syscall string
	Path    string
	Ordinal int // ordinal of this syscall name within its thread (strace counts per tracee)
	Line    string
}

var unsupportedRe = regexp.MustCompile(`unsupported statement type: (\*ast\.\w+)`)
var lineRe = regexp.MustCompile(`^(\d+)\s+(\w+)\((.*)$`)
var fdPathRe = regexp.MustCompile(`^\d+<([^>]*)>`)
var quotedRe = regexp.MustCompile(`"((?:[^"\\]|\\.)*)"`)

const traceSet = "trace=openat,creat,write,pwrite64,writev,rename,renameat,renameat2,unlink,unlinkat,ftruncate,truncate,fchmod,fchmodat,chmod,link,linkat,symlinkat"

// mutatingEvents parses an strace -f -y log and returns the file-mutating
// events whose path lies in dir.
func mutatingEvents(trace, dir string) []event {
	var out []event
	ord := map[string]int{}
	for _, ln := range strings.Split(trace, "\n") {
		m := lineRe.FindStringSubmatch(ln)
		if m == nil {
			continue
		}
		tid, sc, args := m[1], m[2], m[3]
		if strings.Contains(ln, "<unfinished") || strings.Contains(ln, "resumed>") {
			// a split line would break ordinal counting; such traces are rejected by the caller via determinism check
		}
		ord[tid+"/"+sc]++
		path := ""
		mut := false
		switch sc {
		case "write", "pwrite64", "writev", "ftruncate", "fchmod":
			if fm := fdPathRe.FindStringSubmatch(args); fm != nil && strings.HasPrefix(fm[1], "/") {
				path = fm[1] // regular files only: pipes and sockets print as pipe:[n]
				mut = true
			}
		case "openat", "creat":
			if qm := quotedRe.FindStringSubmatch(args); qm != nil {
				path = qm[1]
			}
			mut = strings.Contains(args, "O_WRONLY") || strings.Contains(args, "O_RDWR") || strings.Contains(args, "O_CREAT") || strings.Contains(args, "O_TRUNC") || sc == "creat"
		default: // rename*, unlink*, truncate, chmod, fchmodat, link*, symlinkat
			for _, qm := range quotedRe.FindAllStringSubmatch(args, -1) {
				if strings.Contains(abs(qm[1], dir), dir) {
					path = qm[1]
				}
			}
			mut = true
		}
		if !mut || path == "" {
			continue
		}
		ap := abs(path, dir)
		if !strings.HasPrefix(ap, dir+"/") || strings.HasPrefix(ap, dir+"/home/") {
			continue
		}
		out = append(out, event{tid, sc, strings.TrimPrefix(ap, dir+"/"), ord[tid+"/"+sc], ln})
	}
	return out
}

func abs(p, dir string) string {
	if filepath.IsAbs(p) {
		return filepath.Clean(p)
	}
	return filepath.Join(dir, p)
}

// random temporary-file suffixes (os.CreateTemp) are not part of an event's identity
var tmpRe = regexp.MustCompile(`([-.])[0-9]{5,}`)

func normPath(p string) string { return tmpRe.ReplaceAllString(p, "${1}N") }

func eventSig(ev []event) string {
	var sb strings.Builder
	for _, e := range ev {
		fmt.Fprintf(&sb, "%s:%s;", e.Syscall, normPath(e.Path))
	}
	return sb.String()
}

func (p *P) faultPasses(r *core.Result, src *tape.Source, sc *scenario, base *outcome, trace bool) {
	// the two-element oracle per pre-existing file: complete original or complete fault-free result
	type pair struct{ orig, final string }
	want := map[string]pair{}
	if sc.UsesFiles {
		for _, f := range sc.Files {
			if f.Kind != "missing" {
				want[f.Name] = pair{f.Content, base.Files[f.Name].Content}
				if f.Link {
					want[f.Name+".target"] = pair{f.Content, base.Files[f.Name+".target"].Content}
				}
			}
		}
	}
	if sc.OutPre != nil {
		want[sc.OutFile] = pair{*sc.OutPre, base.Files[sc.OutFile].Content}
	}
	cmdKind := sc.Cmd
	switch {
	case sc.InPlace:
		cmdKind = "format -i"
	case sc.AutoFix:
		cmdKind = "lint --auto-fix"
	case sc.OutFile != "":
		cmdKind = sc.Cmd + " output-file"
	}
	judge := func(o *outcome, fault string) {
		r.Evals++
		for name, w := range want {
			st := o.Files[name]
			// reports may embed the random name of the stdin temp file: normalised
			if st.Exists && (st.Content == w.orig || normPath(st.Content) == normPath(w.final)) {
				continue
			}
			// a report written for stdin input embeds the random name of the stdin
			// temp file (and a fingerprint derived from it), so its bytes differ from
			// run to run: there the complete new content is recognised as a complete
			// JSON document of the same kind (a prefix of one is never valid JSON)
			if st.Exists && name == sc.OutFile && sc.Cmd == "validate" && sc.Stdin != nil && json.Valid([]byte(st.Content)) && len(st.Content) > len(w.final)/2 {
				continue
			}
			state := "other"
			switch {
			case !st.Exists:
				state = "deleted"
			case st.Content == "":
				state = "empty"
			case strings.HasPrefix(w.final, st.Content):
				state = "prefix-of-new"
			case strings.HasPrefix(w.orig, st.Content):
				state = "prefix-of-original"
			}
			target := "input-file"
			if name == sc.OutFile {
				target = "pre-existing-output-file"
			}
			r.Fail("never-half-written", fmt.Sprintf("%s %s fault=%s state=%s", cmdKind, target, strings.SplitN(fault, "@", 2)[0], state),
				fmt.Sprintf("%s\n  fault: %s\n  %s is left with %d bytes %q – neither the complete original (%d bytes) nor the complete new content (%d bytes)", sc, fault, name, len(st.Content), clip(st.Content, 80), len(w.orig), len(w.final)))
		}
	}
	// ---- torn writes: RLIMIT_FSIZE = k
	maxLen := 0
	for _, w := range want {
		if len(w.final) > maxLen {
			maxLen = len(w.final)
		}
	}
	var ks []int
	if p.env.Tier == "thorough" && maxLen <= 512 {
		for k := 0; k <= maxLen; k++ {
			ks = append(ks, k)
		}
		r.Probes["torn-write-offsets-enumerated-completely"]++
	} else {
		ks = []int{0, 1, maxLen / 2, maxLen - 1}
		for i := 0; i < 2 && maxLen > 2; i++ {
			ks = append(ks, src.Intn(maxLen, "c19.k"))
		}
	}
	seenK := map[int]bool{}
	for _, k := range ks {
		if k < 0 || seenK[k] {
			continue
		}
		seenK[k] = true
		o, _, err := p.run(sc, []string{"prlimit", "--fsize=" + strconv.Itoa(k), "--"}, false)
		if err != nil {
			r.Infra = "prlimit run failed: " + err.Error()
			return
		}
		r.Faults["torn-write(RLIMIT_FSIZE)"]++
		judge(o, fmt.Sprintf("torn-write@byte=%d (RLIMIT_FSIZE)", k))
	}
	if !p.strace {
		r.Probes["strace-unavailable-prlimit-only"]++
		return
	}
	// ---- trace pass (twice: must agree)
	straceArgs := []string{"strace", "-f", "-y", "-o", "@TRACE@", "-e", traceSet, "--"}
	t1, d1, err1 := p.run(sc, straceArgs, true)
	t2, d2, err2 := p.run(sc, straceArgs, true)
	if err1 != nil || err2 != nil {
		r.Infra = fmt.Sprintf("trace pass failed: %v %v", err1, err2)
		return
	}
	ev := mutatingEvents(t1.Trace, d1)
	ev2 := mutatingEvents(t2.Trace, d2)
	if eventSig(ev) != eventSig(ev2) {
		r.Probes["trace-pass-not-reproducible(skipped)"]++
		r.Probes["trace-nonrepro:"+cmdKind+fmt.Sprintf(" %d/%d events", len(ev), len(ev2))]++
		if os.Getenv("VERIF_C19_DEBUG") != "" {
			fmt.Fprintf(os.Stderr, "NONREPRO %s\n A=%s\n B=%s\n", sc, eventSig(ev), eventSig(ev2))
		}
		return
	}
	r.Tracef(trace, fmt.Sprintf("mutating events: %s", eventSig(ev)))
	r.Steps += int64(len(ev))
	if len(ev) == 0 {
		return
	}
	dropped, attempted := 0, 0
	inject := func(e event, what, fault string) {
		attempted++
		for try := 0; try < 4; try++ {
			args := []string{"strace", "-f", "-y", "-o", "@TRACE@", "-e", traceSet, "-e", fmt.Sprintf("inject=%s:%s:when=%d", e.Syscall, what, e.Ordinal), "--"}
			o, dir, err := p.run(sc, args, true)
			if err != nil {
				continue
			}
			// verify the injection landed on the intended path
			ok := false
			for _, ln := range strings.Split(o.Trace, "\n") {
				if strings.Contains(ln, e.Syscall+"(") && strings.Contains(normPath(ln), normPath(e.Path)) {
					if strings.Contains(ln, "(INJECTED)") {
						ok = true
					}
				}
			}
			if strings.HasPrefix(what, "signal") {
				// killed on entry: the intended syscall must be the last line of its kind touching the path, unfinished
				ok = o.Killed || strings.Contains(o.Trace, "+++ killed by SIGKILL +++")
				evs := mutatingEvents(o.Trace, dir)
				// events before the kill point must be a prefix of the fault-free sequence
				if len(evs) > 0 && !strings.HasPrefix(eventSig(ev), eventSig(evs[:len(evs)-1])) {
					ok = false
				}
			}
			if !ok {
				continue
			}
			r.Faults[strings.SplitN(fault, "@", 2)[0]]++
			judge(o, fault)
			return
		}
		dropped++
		r.Probes["dropped:"+e.Syscall+" "+strings.SplitN(what, "=", 2)[0]]++
		if os.Getenv("VERIF_C19_DEBUG") != "" {
			args := []string{"strace", "-f", "-y", "-o", "@TRACE@", "-e", traceSet, "-e", fmt.Sprintf("inject=%s:%s:when=%d", e.Syscall, what, e.Ordinal), "--"}
			o, _, _ := p.run(sc, args, true)
			fmt.Fprintf(os.Stderr, "DROPPED %s %s ord=%d path=%s\nORIG: %s\nTRACE:\n%s\n", e.Syscall, what, e.Ordinal, e.Path, e.Line, o.Trace)
		}
	}
	for i, e := range ev {
		inject(e, "signal=SIGKILL", fmt.Sprintf("kill@before-event-%d(%s %s)", i+1, e.Syscall, e.Path))
		switch e.Syscall {
		case "write", "pwrite64", "writev":
			inject(e, "error=ENOSPC", fmt.Sprintf("ENOSPC@event-%d(%s %s)", i+1, e.Syscall, e.Path))
			inject(e, "error=EIO", fmt.Sprintf("EIO@event-%d(%s %s)", i+1, e.Syscall, e.Path))
		case "openat", "creat":
			inject(e, "error=EACCES", fmt.Sprintf("EACCES@event-%d(%s %s)", i+1, e.Syscall, e.Path))
			inject(e, "error=ENOSPC", fmt.Sprintf("ENOSPC@event-%d(%s %s)", i+1, e.Syscall, e.Path))
		default:
			inject(e, "error=EIO", fmt.Sprintf("EIO@event-%d(%s %s)", i+1, e.Syscall, e.Path))
		}
	}
	r.Probes["injections-attempted"] += attempted
	r.Probes["injections-dropped-unverifiable"] += dropped
	if attempted >= 8 && dropped*20 > attempted*3 {
		r.Probes["scenario-with>15%-dropped-injections"]++
	}
	for _, e := range ev {
		if e.Syscall == "rename" || e.Syscall == "renameat" || e.Syscall == "renameat2" {
			r.Probes["rename-based-replace-observed"]++
			break
		}
	}
}

func gosqlxTokenize(content, dialect string) []models.TokenWithSpan {
	var t *tokenizer.Tokenizer
	if dialect != "" {
		t, _ = tokenizer.NewWithDialect(keywords.SQLDialect(dialect))
	} else {
		t, _ = tokenizer.New()
	}
	toks, err := t.Tokenize([]byte(content))
	if err != nil {
		return nil
	}
	return toks
}
