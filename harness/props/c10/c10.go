// Package c10: concurrent use gives the sequential results, race-free, with
// exact metrics. N simulated tasks run mixes of the public operations under the
// seeded scheduler (built with -race); oracles: equality with the result of the
// same call run alone, the real race detector on the simulated schedule, exact
// metrics totals at quiescence, progress.
package c10

import (
	"fmt"
	"sort"
	"strings"

	goerrors "github.com/ajitpratap0/GoSQLX/pkg/errors"
	"github.com/ajitpratap0/GoSQLX/pkg/metrics"
	"github.com/ajitpratap0/GoSQLX/pkg/sql/monitor"

	"verif/props/ops"
	"verif/sim/canon"
	"verif/sim/core"
	"verif/sim/gen"
	"verif/sim/pool"
	"verif/sim/racelog"
	"verif/sim/sched"
	"verif/sim/tape"
	"verifshim/simhook"
)

type P struct {
	env  *core.Env
	race *racelog.Log
}

func New() core.Property { return &P{} }

func (p *P) ID() string    { return "C10" }
func (p *P) Level() string { return "exploration" }
func (p *P) Rule() string {
	return "one case = a workload (2-6 tasks x 1-5 public operations, swarm-selected kinds, generated inputs) + a pool-fault mode + a schedule decided at every sync/atomic/pool operation by the tape; non-trivial = at least 2 tasks completed at least one operation each AND at least one preemption happened (a task was descheduled while runnable); distinct = distinct conflict-order signatures (per sync object, the sequence of task ids that operated on it) among non-trivial runs"
}
func (p *P) Runs(tier string) int {
	if tier == "thorough" {
		return 1200000
	}
	return 16000
}

// ColdRuns: number of cold-start runs of a batch – each in a fresh process
// that has NOT warmed up lazily initialised library state, the concurrent phase
// first, the sequential reference afterwards. This is the only way to see a
// race in first-use initialisation (sync.Once tables, lazily built maps).
func (p *P) ColdRuns(tier string) int {
	nBase, nFeat := int(ops.NKinds)*len(coldReps), int(ops.NKinds)*len(gen.Features())
	if tier == "thorough" {
		return nBase + nFeat + 3*nBase
	}
	return nBase + 250
}

// Indexed: the driver makes the run's index its first choice (systematic strata).
func (p *P) Indexed() bool { return true }

func (p *P) Init(env *core.Env) error {
	p.env = env
	p.race = racelog.Open()
	ops.SetScratch(env.Scratch)
	if !env.Cold {
		ops.WarmUp()
	}
	return nil
}
func (p *P) Assumptions() []string {
	return []string{
		"interleavings are explored at synchronisation operations only (sync.Pool, Mutex, RWMutex, Once, sync/atomic); for data-race-free code this reaches every sequentially consistent behaviour, and data races themselves are reported by the Go race detector running on the simulated schedule (simulator hand-offs hidden from it)",
		"the library spawns no goroutines of its own in the packages exercised (verified by grep; cmd/watch and actioncmd are out of scope)",
		"the race detector keeps 4 shadow cells per 8 bytes; runs are short so that evictions are unlikely, but a race can in principle be missed in one run",
		"schedules are sampled (serial, bounded-preemption, random-walk policies), not enumerated",
	}
}
func (p *P) Components() map[string]string {
	return map[string]string{
		"tokenizer, parser, ast, formatter, extractors, security scanner, linter, metrics, monitor, errors cache, config cache": "real code (sync/atomic imports rewritten to the shim)",
		"sync.Pool":                  "shim: explicit free list, hit/miss/which/drop decided by the tape",
		"Mutex/RWMutex/Once/atomics": "shim wrapping the real primitive, yields to the scheduler first",
		"goroutine scheduling":       "simulator decides who runs (real goroutines, one at a time)",
		"race detection":             "real Go race detector (TSan)",
		"clock":                      "real (feeds only duration metrics, which no oracle reads)",
	}
}

// coldReps: one representative per statement kind and per error path.
var coldReps = []string{
	"SELECT a, b FROM t WHERE a = 1 ORDER BY b",
	"SELECT u.id, COUNT(*) FROM users u JOIN orders o ON u.id = o.user_id GROUP BY u.id HAVING COUNT(*) > 1",
	"INSERT INTO t (a, b) VALUES (1, 'x')",
	"UPDATE t SET a = 2 WHERE b IS NULL",
	"DELETE FROM t WHERE a IN (1, 2)",
	"CREATE TABLE t (id INT PRIMARY KEY, name VARCHAR(20) NOT NULL, created TIMESTAMP)",
	"CREATE INDEX idx ON t (a)",
	"CREATE VIEW v AS SELECT a FROM t",
	"ALTER TABLE t ADD COLUMN c INT",
	"DROP TABLE t",
	"WITH c AS (SELECT a FROM t) SELECT a FROM c UNION SELECT a FROM u",
	"MERGE INTO t USING s ON t.id = s.id WHEN MATCHED THEN UPDATE SET a = s.a",
	"SELECT a, SUM(b) OVER (PARTITION BY a ORDER BY c) FROM t",
	"SELECT CASE WHEN a > 1 THEN 'x' ELSE 'y' END, CAST(b AS INT) FROM t -- note\n",
	"TRUNCATE TABLE t",
	"SELECT * FORM t",
	"SELECT 'unterminated",
}

// sqlKinds: the operation kinds whose behaviour depends on an SQL text.
var sqlKinds = func() []ops.Kind {
	var ks []ops.Kind
	for _, k := range ops.All() {
		switch k {
		case ops.Suggest, ops.Observe, ops.Monitor, ops.Span, ops.ConfigLoad:
		default:
			ks = append(ks, k)
		}
	}
	return ks
}()

type cell struct {
	op    ops.Op
	purge bool   // a GC cycle empties all pools just before this operation
	seq   string // result when run alone
	conc  string
	done  bool
}

func (p *P) Run(src *tape.Source, trace bool) *core.Result {
	r := core.NewResult()
	simhook.PurgeAll()
	ops.ResetGlobals()
	p.race.Mark()

	// ---- cold-start stratum: the first operation of EVERY task is the same
	// (operation kind, statement kind) pair, so that whatever that path
	// initialises on first use is initialised by several tasks at once. The
	// pair is the run's first choice: the driver enumerates the pairs.
	coldKind, coldSQL := ops.Kind(-1), ""
	pureFocus := false // warm focused run: small, and biased towards hand-overs through the pools
	// the first choice of every run is its index in the batch (cold batch or warm batch)
	j := src.Intn(1<<30, "c10.runindex")
	if !p.env.Cold {
		// warm runs: every second one is FOCUSED - all tasks start with the same
		// operation kind on the same grammar feature (enumerated, scattered)
		if j%2 == 1 {
			nFeat := len(sqlKinds) * len(gen.Features())
			f := ((j / 2) * 1013) % nFeat
			coldKind, coldSQL = sqlKinds[f/len(gen.Features())], gen.Features()[f%len(gen.Features())]
			r.Probes["focused-run(all tasks: same operation kind, same grammar feature)"]++
			pureFocus = true
		}
	} else {
		nBase, nFeat := int(ops.NKinds)*len(coldReps), int(ops.NKinds)*len(gen.Features())
		switch {
		case j < nBase || j >= nBase+nFeat:
			// every operation kind x one representative per statement kind
			pair := j
			if j >= nBase {
				pair = (j - nBase - nFeat) % nBase
			}
			coldKind, coldSQL = ops.Kind(pair/len(coldReps)), coldReps[pair%len(coldReps)]
		default:
			// every operation kind x every grammar feature, in a scattered order so
			// that a prefix of the enumeration is a spread sample
			f := ((j - nBase) * 1013) % nFeat
			coldKind, coldSQL = ops.Kind(f/len(gen.Features())), gen.Features()[f%len(gen.Features())]
		}
	}
	// ---- configuration (swarm)
	nTasks := 2 + src.Intn(3, "c10.tasks")
	if src.Intn(8, "c10.many") == 7 {
		nTasks = 4 + src.Intn(3, "c10.tasks2")
	}
	mode := pool.Mode(src.Intn(4, "c10.poolmode")) // 0 mixed … see below
	// map so that 0 = always-miss (fault-free baseline)
	mode = []pool.Mode{pool.AlwaysMiss, pool.Mixed, pool.HitNewest, pool.Mixed}[mode]
	var enabled []ops.Kind
	directOnly := src.Intn(6, "c10.directonly") == 5 && (coldKind < 0 || coldKind.DirectTokenize())
	if directOnly {
		enabled = []ops.Kind{ops.TokenizeDirect, ops.TokenizePooled}
	} else {
		for _, k := range ops.All() {
			if src.Intn(3, "c10.enable") != 2 {
				enabled = append(enabled, k)
			}
		}
		if len(enabled) == 0 {
			enabled = []ops.Kind{ops.Parse}
		}
	}
	// a shared workload: half of the operations take their input from a small
	// per-run pool, so that several tasks work on the very same query (same
	// error text, same cache key, same metrics bucket) at the same time
	shared := make([]string, 1+src.Intn(3, "c10.nshared"))
	for i := range shared {
		if src.Intn(2, "c10.sharedkind") == 1 {
			shared[i] = gen.G{S: src}.FaultLike()
		} else {
			shared[i] = gen.G{S: src}.Any()
		}
	}
	work := make([][]*cell, nTasks)
	for t := range work {
		if coldKind >= 0 {
			op := ops.Gen(src, []ops.Kind{coldKind})
			if op.SQL != "" && op.Kind != ops.Suggest {
				// same statement shape in every task, the text of every second task
				// differs (identifiers and literals rotated): a buffer shared by
				// mistake then shows in the RESULT, not only to the race detector
				op.SQL = rotateLower(coldSQL, t%2)
			}
			work[t] = append(work[t], &cell{op: op})
			if pureFocus && op.SQL != "" && src.Intn(2, "c10.observer") == 1 {
				// an observer right behind the focused operation: a plain default parse
				// of the same text - whatever the focused path leaves in shared pools
				// or tables shows in ITS result
				obs := ops.Op{Kind: []ops.Kind{ops.Parse, ops.ParserParseBytes, ops.Validate}[src.Intn(3, "c10.observerkind")], SQL: op.SQL}
				work[t] = append(work[t], &cell{op: obs})
			}
		}
		n := 1 + src.Intn(5, "c10.nops")
		if pureFocus && src.Intn(2, "c10.focusonly") == 1 {
			n = 0
		}
		for i := 0; i < n; i++ {
			op := ops.Gen(src, enabled)
			if op.SQL != "" && op.Kind != ops.Suggest && src.Intn(2, "c10.useshared") == 1 {
				op.SQL = shared[src.Intn(len(shared), "c10.whichshared")]
				r.Probes["operation-on-shared-input"]++
			}
			work[t] = append(work[t], &cell{op: op, purge: src.Intn(12, "c10.purge") == 11})
		}
	}
	pol := sched.PickPolicy(src)
	if pureFocus {
		switch src.Intn(4, "c10.focuspol") {
		case 0, 1:
			pol = sched.AfterPut
		case 2:
			pol = sched.WalkFast
		}
		if src.Intn(2, "c10.focusmode") == 1 {
			mode = pool.HitNewest
		}
	}
	if trace {
		r.Tracef(true, fmt.Sprintf("tasks=%d pool=%s policy=%s", nTasks, mode, pol))
		for t := range work {
			for i, c := range work[t] {
				r.Tracef(true, fmt.Sprintf("  t%d.%d %s purge-before=%v", t, i, c.op, c.purge))
			}
		}
	}

	cold := p.env.Cold
	ctl := &pool.Ctl{S: src, Mode: pool.AlwaysMiss}
	ctl.Install()
	est := 0
	excluded := map[*cell]bool{}
	var seqStats, concStats metrics.Stats
	var seqMon, concMon monitor.MetricsSnapshot
	var seqCache, concCache goerrors.SuggestionCacheStats
	var s *sched.Sched
	// ---- sequential oracle: each call alone on pristine state, twice
	sequential := func() {
		ctl.Mode = pool.AlwaysMiss
		metrics.Enable()
		metrics.Reset()
		monitor.Enable()
		monitor.Reset()
		for t := range work {
			for _, c := range work[t] {
				simhook.PurgeAll()
				op := c.op
				est += sched.CountYields(func() { c.seq, _ = op.Exec(false) })
			}
		}
		seqStats = metrics.GetStats()
		seqMon = monitor.GetMetrics()
		seqCache = goerrors.GetSuggestionCacheStats()
		ops.ResetGlobals()
		for t := range work {
			for _, c := range work[t] {
				simhook.PurgeAll()
				again, _ := c.op.Exec(false)
				if again != c.seq {
					excluded[c] = true
					r.Probes["sequentially-nondeterministic:"+c.op.Kind.String()]++
				}
			}
		}
	}
	// ---- concurrent execution under the scheduler
	concurrent := func() {
		simhook.PurgeAll()
		ops.ResetGlobals()
		metrics.Enable()
		metrics.Reset()
		monitor.Enable()
		monitor.Reset()
		ctl.Mode = mode
		if est == 0 {
			est = 400 * nTasks // cold run: no sequential execution yet to measure
		}
		s = sched.New(src, pol, est)
		s.WantTrace = trace
		for t := range work {
			cells := work[t]
			s.Go(func() {
				for _, c := range cells {
					if c.purge {
						ctl.PurgeAll()
					}
					c.conc, _ = c.op.Exec(false)
					c.done = true
				}
			})
		}
		s.Run()
		concStats = metrics.GetStats()
		concMon = monitor.GetMetrics()
		concCache = goerrors.GetSuggestionCacheStats()
		metrics.Disable()
		monitor.Disable()
	}
	if cold {
		// first use of everything happens concurrently; the reference comes afterwards
		concurrent()
		if !s.Deadlock { // parked tasks hold real locks: nothing else can run in this process
			ops.ResetGlobals()
			sequential()
		}
	} else {
		sequential()
		concurrent()
	}
	pool.Uninstall()
	if !s.Deadlock {
		metrics.Disable()
		monitor.Disable()
	}

	r.Steps = int64(s.Steps())
	r.Extra["schedules"] = s.SchedHash
	r.Extra["conflict_orders"] = s.ConflictHash()
	r.CaseKey = s.ConflictHash()
	r.Faults["sched.preemption"] += s.Preemptions
	r.Faults["sched.switch"] += s.Switches
	r.Faults["policy."+pol.String()]++
	r.Faults["poolmode."+mode.String()]++
	ctl.Counts(r.Faults)
	if trace {
		r.Tracef(true, "schedule: "+strings.Join(s.Trace(), " "))
	}
	ctx := fmt.Sprintf("[policy=%s preemptions=%d pool=%s tasks=%d]", pol, s.Preemptions, mode, nTasks)

	// ---- oracle 4: progress
	if s.Deadlock {
		r.Fail("progress", "deadlock", "all unfinished tasks are blocked on locks (e.g. a read lock taken recursively with a writer arriving in between) "+ctx)
		r.Poisoned = true
		return r
	}
	if s.Capped {
		r.Probes["step-cap-reached"]++
	}
	// ---- panics
	completed := 0
	for ti, t := range s.Tasks {
		if t.Panic != "" {
			r.Fail("no-panic", firstLine(t.Panic), fmt.Sprintf("task %d panicked outside an operation: %s %s", ti, t.Panic, ctx))
		}
		if len(work[ti]) > 0 && work[ti][0].done {
			completed++
		}
	}
	// ---- oracle 1: every call returns what it returns when run alone
	for t := range work {
		for i, c := range work[t] {
			if !c.done || excluded[c] || !c.op.Kind.Compared() {
				continue
			}
			if c.conc != c.seq {
				part := firstPart(c.conc, c.seq)
				r.Fail("sequential-equality", c.op.Kind.String()+" "+part,
					fmt.Sprintf("t%d.%d %s returned a different result under concurrency than alone %s: %s", t, i, c.op, ctx, canon.Diff(c.conc, c.seq)))
			}
		}
	}
	// ---- oracle 3: exact metrics at quiescence (order-independent aggregates)
	cmp := func(name string, got, want int64) {
		if got != want {
			r.Fail("metrics-exact", name, fmt.Sprintf("metrics %s = %d after all tasks finished, sequential execution of the same calls gives %d %s", name, got, want, ctx))
		}
	}
	cmp("TokenizeOperations", concStats.TokenizeOperations, seqStats.TokenizeOperations)
	cmp("TokenizeErrors", concStats.TokenizeErrors, seqStats.TokenizeErrors)
	cmp("TotalBytesProcessed", concStats.TotalBytesProcessed, seqStats.TotalBytesProcessed)
	cmp("MinQuerySize", concStats.MinQuerySize, seqStats.MinQuerySize)
	cmp("MaxQuerySize", concStats.MaxQuerySize, seqStats.MaxQuerySize)
	cmp("ParseOperations", concStats.ParseOperations, seqStats.ParseOperations)
	cmp("ParseErrors", concStats.ParseErrors, seqStats.ParseErrors)
	cmp("PoolGets", concStats.PoolGets, seqStats.PoolGets)
	cmp("PoolPuts", concStats.PoolPuts, seqStats.PoolPuts)
	cmp("StatementsCreated", concStats.StatementsCreated, seqStats.StatementsCreated)
	if a, b := canon.Of(concStats.ErrorsByType), canon.Of(seqStats.ErrorsByType); a != b {
		r.Fail("metrics-exact", "ErrorsByType", fmt.Sprintf("metrics ErrorsByType differs from the sequential execution %s: %s", ctx, canon.Diff(a, b)))
	}
	// suggestion cache: every lookup is counted exactly once (hit or miss), and
	// the set of cached inputs does not depend on the schedule
	cmp("suggestion-cache lookups(hits+misses)", int64(concCache.Hits+concCache.Misses), int64(seqCache.Hits+seqCache.Misses))
	cmp("suggestion-cache size", int64(concCache.Size), int64(seqCache.Size))
	cmp("monitor.TokenizerCalls", concMon.TokenizerCalls, seqMon.TokenizerCalls)
	cmp("monitor.ParserCalls", concMon.ParserCalls, seqMon.ParserCalls)
	cmp("monitor.PoolHits", concMon.PoolHits, seqMon.PoolHits)
	cmp("monitor.PoolMisses", concMon.PoolMisses, seqMon.PoolMisses)
	cmp("monitor.TokensProcessed", concMon.TokensProcessed, seqMon.TokensProcessed)
	cmp("monitor.TokenizerDuration", int64(concMon.TokenizerDuration), int64(seqMon.TokenizerDuration))
	cmp("monitor.ParserDuration", int64(concMon.ParserDuration), int64(seqMon.ParserDuration))
	cmp("monitor.StatementsProcessed", concMon.StatementsProcessed, seqMon.StatementsProcessed)
	if directOnly {
		// truth computed from the inputs themselves, not trusting the sequential path
		var n, sum, mn, mx int64 = 0, 0, -1, 0
		for t := range work {
			for _, c := range work[t] {
				l := int64(len(c.op.SQL))
				n++
				sum += l
				if mn == -1 || l < mn {
					mn = l
				}
				if l > mx {
					mx = l
				}
			}
		}
		r.Probes["direct-tokenize-only-run"]++
		cmp("TokenizeOperations(truth)", concStats.TokenizeOperations, n)
		cmp("TotalBytesProcessed(truth)", concStats.TotalBytesProcessed, sum)
		cmp("MinQuerySize(truth)", concStats.MinQuerySize, mn)
		cmp("MaxQuerySize(truth)", concStats.MaxQuerySize, mx)
	}
	for _, site := range pool.DupSites() {
		r.Fail("sequential-equality", "pool-resident-twice "+site, fmt.Sprintf("at quiescence the pool used at %s holds the same object twice: two concurrent users would share it %s", site, ctx))
	}
	// ---- oracle 2: race freedom on library state
	for _, rep := range p.race.New() {
		switch rep.Class {
		case racelog.Library:
			r.Fail("race-free", rep.Sig, fmt.Sprintf("data race on library state %s:\n%s", ctx, rep.Text))
		case racelog.Callers:
			r.Fail("race-free", rep.Sig, "two callers race on the same memory: the library handed one object to two holders:\n"+rep.Text)
		case racelog.Mixed:
			r.Fail("race-free", rep.Sig, fmt.Sprintf("data race between library code and a caller-held value %s:\n%s", ctx, rep.Text))
		default:
			r.Infra = "race report touching only harness frames:\n" + rep.Text
		}
	}
	r.Nontrivial = completed >= 2 && s.Preemptions >= 1
	r.LogHash = s.SchedHash ^ src.Hash()
	for t := range work {
		for _, c := range work[t] {
			if c.op.Kind.Compared() && !excluded[c] { // observers of counters and map-ordered reports are not functions of the input
				r.LogHash = r.LogHash*1099511628211 ^ canon.Hash(c.conc)
			}
		}
	}
	return r
}

func firstLine(s string) string {
	if i := strings.Index(s, "\n"); i >= 0 {
		return s[:i]
	}
	return s
}

var parts = []string{"tokens=", "tree=", "trees=", "stmts=", "errs=", "err=", "comments=", "text=", "sql=", "fmt=", "tables=", "cols=", "funcs=", "md=", "span="}

// firstPart names the first top-level component in which a and b differ.
func firstPart(a, b string) string {
	type seg struct {
		pos  int
		name string
	}
	var segs []seg
	for _, k := range parts {
		if i := strings.Index(a, k); i == 0 || (i > 0 && a[i-1] == ' ') {
			segs = append(segs, seg{i, k})
		}
	}
	sort.Slice(segs, func(i, j int) bool { return segs[i].pos < segs[j].pos })
	d := 0
	for d < len(a) && d < len(b) && a[d] == b[d] {
		d++
	}
	name := "result"
	for _, s := range segs {
		if s.pos <= d {
			name = strings.TrimSuffix(s.name, "=")
		}
	}
	return name
}

// rotateLower shifts every lower-case ASCII letter by k (keywords in the
// feature lists are upper-case: the statement keeps its shape).
func rotateLower(s string, k int) string {
	if k == 0 {
		return s
	}
	b := []byte(s)
	for i, c := range b {
		if c >= 'a' && c <= 'z' {
			b[i] = 'a' + (c-'a'+byte(k))%26
		}
	}
	return string(b)
}
