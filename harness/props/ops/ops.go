// Package ops is the table of public operations used as workload by the
// concurrency (C10) and ownership (C09) simulations. Every operation returns
// the canonical string of everything it hands to the caller, optionally the
// value itself (to be held) and a release function.
package ops

import (
	"context"
	"fmt"
	"os"
	"path/filepath"
	"reflect"
	"runtime/debug"
	"sort"
	"strings"

	"github.com/ajitpratap0/GoSQLX/pkg/config"
	goerrors "github.com/ajitpratap0/GoSQLX/pkg/errors"
	"github.com/ajitpratap0/GoSQLX/pkg/formatter"
	"github.com/ajitpratap0/GoSQLX/pkg/gosqlx"
	"github.com/ajitpratap0/GoSQLX/pkg/linter"
	lkeywords "github.com/ajitpratap0/GoSQLX/pkg/linter/rules/keywords"
	"github.com/ajitpratap0/GoSQLX/pkg/linter/rules/style"
	"github.com/ajitpratap0/GoSQLX/pkg/linter/rules/whitespace"
	"github.com/ajitpratap0/GoSQLX/pkg/metrics"
	"github.com/ajitpratap0/GoSQLX/pkg/models"
	"github.com/ajitpratap0/GoSQLX/pkg/sql/ast"
	"github.com/ajitpratap0/GoSQLX/pkg/sql/keywords"
	"github.com/ajitpratap0/GoSQLX/pkg/sql/monitor"
	"github.com/ajitpratap0/GoSQLX/pkg/sql/parser"
	"github.com/ajitpratap0/GoSQLX/pkg/sql/security"
	"github.com/ajitpratap0/GoSQLX/pkg/sql/tokenizer"
	"github.com/ajitpratap0/GoSQLX/pkg/transform"

	"verif/sim/canon"
	"verif/sim/gen"
	"verif/sim/simctx"
	"verif/sim/tape"
)

// TreeMutated marks a result of a read-only tree operation (extract, scan,
// serialise/format) that changed the tree it was given.
const TreeMutated = "TREE-MUTATED-BY-READ-ONLY-OPERATION"

type Kind int

const (
	TokenizeDirect Kind = iota
	TokenizePooled
	Parse
	ParseCtx
	Validate
	ParseMultiple
	ValidateMultiple
	ParseRecovery
	Format
	ParserParseBytes
	ParserValidate
	ParserParseBytesWithTokens
	ParserDialect
	TreeSQL
	FormatterFormat
	Extract
	ScanSQL
	ScanTree
	Lint
	Suggest
	Observe
	Monitor
	Span
	ParserStrict
	ParserPooledOptions
	ParserPositions
	ParseCtxCancelled
	TransformFromSQL
	ConfigLoad
	LintAllRules
	TransformRules
	KeywordsAPI
	NKinds
)

var names = [...]string{"tokenize-direct", "tokenize-pooled", "gosqlx.Parse", "gosqlx.ParseWithContext", "gosqlx.Validate",
	"gosqlx.ParseMultiple", "gosqlx.ValidateMultiple", "gosqlx.ParseWithRecovery", "gosqlx.Format", "parser.ParseBytes",
	"parser.ValidateBytes", "parser.ParseBytesWithTokens", "parser.ParseWithDialect", "AST.SQL+Format", "formatter.Format",
	"gosqlx.Extract*", "security.ScanSQL", "security.Scan", "linter.LintString", "errors.SuggestKeyword", "observe-stats",
	"monitor.Record*", "ast.SetSpan/GetSpan", "Parser(strict).ParseFromModelTokens", "GetParser+ApplyOptions+Parse+PutParser",
	"Parser.ParseFromModelTokensWithPositions", "gosqlx.ParseWithContext(cancelled at poll k)", "transform.Apply(AddWhereFromSQL/AddJoinFromSQL rule values shared across calls)", "config.LoadFromFileCached", "linter(all rules incl. L006/L009).LintString (race/crash only)",
	"transform.Apply(caller-built rules: replace/remove/add where, columns, joins, paging, ordering, tables; detached parts kept)",
	"keywords.New(dialect)+IsKeyword/IsReserved/GetTokenType/AddKeyword on the caller's own instance"}

func (k Kind) String() string { return names[k] }

// Compared reports whether the operation's return value is a function of its
// input alone (pure observers of global counters are not).
func (k Kind) Compared() bool { return k != Observe && k != Monitor && k != LintAllRules }

// TokenizesOnce: the operation tokenizes exactly its SQL input exactly once
// when the input tokenizes (used for the harness-computed metrics truth).
func (k Kind) DirectTokenize() bool { return k == TokenizeDirect || k == TokenizePooled }

type Op struct {
	Kind Kind
	SQL  string
	SQL2 string
	Flag int
}

func (o Op) String() string {
	s := fmt.Sprintf("%s(%q", o.Kind, clip(o.SQL, 80))
	if o.SQL2 != "" {
		s += fmt.Sprintf(", %q", clip(o.SQL2, 40))
	}
	return s + fmt.Sprintf(") flag=%d", o.Flag)
}

func clip(s string, n int) string {
	if len(s) > n {
		return s[:n] + "…"
	}
	return s
}

var typos = []string{"SELCT", "FORM", "WHRE", "INSRT", "UPDTE", "DELET", "JION", "GRUOP", "ODER", "HAVNG", "LIMT", "selct", "Form", "TABEL", "VALUSE"}

// Gen draws an operation; enabled restricts the kinds (swarm).
func Gen(src *tape.Source, enabled []Kind) Op {
	g := gen.G{S: src}
	k := enabled[src.Intn(len(enabled), "op.kind")]
	o := Op{Kind: k, Flag: src.Intn(4, "op.flag")}
	switch k {
	case Suggest:
		o.SQL = typos[src.Intn(len(typos), "op.typo")]
		if src.Intn(3, "op.typo2") == 2 {
			o.SQL = fmt.Sprintf("%sx%d", o.SQL, src.Intn(50, "op.typo3"))
		}
	case ParseMultiple, ValidateMultiple:
		o.SQL = g.Any()
		o.SQL2 = g.Any()
	case Observe, Monitor:
	case Extract, ScanTree, TreeSQL, Span, TransformFromSQL, TransformRules:
		o.SQL = g.Valid()
	default:
		o.SQL = g.Any()
	}
	return o
}

// All kinds.
func All() []Kind {
	ks := make([]Kind, NKinds)
	for i := range ks {
		ks[i] = Kind(i)
	}
	return ks
}

func treeCanon(a *ast.AST, err error) string {
	var t any
	if a != nil {
		t = a
	}
	return "tree=" + canon.Of(t) + " err=" + canon.Err(err)
}

func sortedSet(xs []string) string {
	ys := append([]string(nil), xs...)
	sort.Strings(ys)
	return canon.Of(ys)
}

var allRulesLinter = linter.New(
	whitespace.NewTrailingWhitespaceRule(), whitespace.NewMixedIndentationRule(), whitespace.NewConsecutiveBlankLinesRule(1),
	whitespace.NewIndentationDepthRule(4, 4), whitespace.NewLongLinesRule(100), whitespace.NewRedundantWhitespaceRule(),
	style.NewColumnAlignmentRule(), style.NewCommaPlacementRule(style.CommaTrailing), style.NewAliasingConsistencyRule(true),
	lkeywords.NewKeywordCaseRule(lkeywords.CaseUpper),
)

var cfgFiles []string

// SetScratch creates the small config files the ConfigLoad operation reads.
var cfgDir = "\x00no-config-dir"

func SetScratch(dir string) {
	if len(cfgFiles) > 0 || dir == "" {
		return
	}
	d := filepath.Join(dir, fmt.Sprintf("opscfg.%d", os.Getpid()))
	if os.MkdirAll(d, 0o755) != nil {
		return
	}
	cfgDir = d
	for name, body := range map[string]string{
		"a.json": `{"format":{"indent":4},"validation":{"dialect":"mysql"}}`,
		"b.yaml": "format:\n  indent: 3\nvalidation:\n  dialect: sqlite\n",
		"c.json": `{}`,
	} {
		p := filepath.Join(d, name)
		if os.WriteFile(p, []byte(body), 0o644) == nil {
			cfgFiles = append(cfgFiles, p)
		}
	}
	sort.Strings(cfgFiles)
}

var (
	sharedWhereRule  = transform.AddWhereFromSQL("tenant_id = 42 AND deleted_at IS NULL")
	sharedJoinRule   = transform.AddJoinFromSQL("LEFT JOIN tenants tn ON tn.id = t.tenant_id")
	sharedLimitRule  = transform.SetLimit(5)
	sharedOffsetRule = transform.SetOffset(40)
)

var theLinter = linter.New(
	whitespace.NewTrailingWhitespaceRule(),
	whitespace.NewMixedIndentationRule(),
	whitespace.NewConsecutiveBlankLinesRule(1),
	whitespace.NewIndentationDepthRule(4, 4),
	whitespace.NewLongLinesRule(100),
	whitespace.NewRedundantWhitespaceRule(),
	// style.NewColumnAlignmentRule (L006): same reason as L009 below (map iteration
	// order decides which line is reported) – excluded.
	style.NewCommaPlacementRule(style.CommaTrailing),
	// style.NewAliasingConsistencyRule (L009) is deliberately absent: its message
	// depends on Go map iteration order even sequentially (C17's business), so it
	// cannot be an observable of a concurrency oracle.
	lkeywords.NewKeywordCaseRule(lkeywords.CaseUpper),
)

// Held is a value handed to the caller together with how to re-canonicalise and
// release it.
type Held struct {
	What    string
	Value   any
	Release func()
}

// Exec runs the operation. hold=false releases pooled results before
// returning (the usual defer pattern); hold=true returns them in held.
func (o Op) Exec(hold bool) (res string, held []Held) {
	defer func() {
		if r := recover(); r != nil {
			res = fmt.Sprintf("PANIC: %v @ %s", r, panicSite(string(debug.Stack())))
			held = nil
		}
	}()
	keep := func(what string, v any, rel func()) {
		if hold {
			held = append(held, Held{what, v, rel})
		} else if rel != nil {
			rel()
		}
	}
	keepTree := func(a *ast.AST) {
		if a != nil {
			keep("tree", a, func() { ast.ReleaseAST(a) })
		}
	}
	switch o.Kind {
	case TokenizeDirect:
		t, _ := tokenizer.New()
		toks, err := t.Tokenize([]byte(o.SQL))
		res = "tokens=" + canon.Of(toks) + " err=" + canon.Err(err) + " comments=" + canon.Of(t.Comments)
		keep("tokens", toks, nil)
		keep("comments", t.Comments, nil)
	case TokenizePooled:
		t := tokenizer.GetTokenizer()
		toks, err := t.Tokenize([]byte(o.SQL))
		cm := append([]models.Comment(nil), t.Comments...)
		res = "tokens=" + canon.Of(toks) + " err=" + canon.Err(err) + " comments=" + canon.Of(cm)
		tokenizer.PutTokenizer(t)
		keep("tokens", toks, nil)
	case Parse:
		a, err := gosqlx.Parse(o.SQL)
		res = treeCanon(a, err)
		keepTree(a)
	case ParseCtx:
		a, err := gosqlx.ParseWithContext(simctx.Never(), o.SQL)
		res = treeCanon(a, err)
		keepTree(a)
	case Validate:
		res = canon.Err(gosqlx.Validate(o.SQL))
	case ParseMultiple:
		as, err := gosqlx.ParseMultiple([]string{o.SQL, o.SQL2})
		res = "trees=" + canon.Of(as) + " err=" + canon.Err(err)
		for _, a := range as {
			keepTree(a)
		}
	case ValidateMultiple:
		res = canon.Err(gosqlx.ValidateMultiple([]string{o.SQL, o.SQL2}))
	case ParseRecovery:
		stmts, errs := gosqlx.ParseWithRecovery(o.SQL)
		res = "stmts=" + canon.Of(stmts) + " errs=" + canon.Of(errs)
		keep("statements", stmts, nil)
	case Format:
		opts := gosqlx.DefaultFormatOptions()
		opts.UppercaseKeywords = o.Flag&1 == 1
		opts.AddSemicolon = o.Flag&2 == 2
		s, err := gosqlx.Format(o.SQL, opts)
		res = "text=" + canon.Of(s) + " err=" + canon.Err(err)
	case ParserParseBytes:
		a, err := parser.ParseBytes([]byte(o.SQL))
		res = treeCanon(a, err)
		keepTree(a)
	case ParserValidate:
		switch o.Flag {
		case 0, 1:
			res = canon.Err(parser.ValidateBytes([]byte(o.SQL)))
		default:
			// the dialect-taking variants configure a parser of their own
			ds := keywords.AllDialects()
			d := ds[len(o.SQL)%len(ds)]
			if o.Flag == 2 {
				d = keywords.DialectMySQL
			}
			res = string(d) + " " + canon.Err(parser.ValidateBytesWithDialect([]byte(o.SQL), d)) + " " + canon.Err(parser.ValidateWithDialect(o.SQL, d))
		}
	case ParserParseBytesWithTokens:
		a, toks, err := parser.ParseBytesWithTokens([]byte(o.SQL))
		res = treeCanon(a, err) + " tokens=" + canon.Of(toks)
		keepTree(a)
		keep("parser-tokens", toks, nil)
	case KeywordsAPI:
		// an instance of the keyword table is the caller's own: what it answers
		// depends on its dialect and on what THIS caller added, on nothing else
		ds := keywords.AllDialects()
		d := ds[(len(o.SQL)+o.Flag)%len(ds)]
		kw := keywords.New(d, o.Flag&1 == 0)
		var sb strings.Builder
		probe := func() {
			for _, w := range []string{"SELECT", "UNDROP", "COPY", "GRANT", "QUALIFY", "ILIKE", "ZEROFILL", "ROWNUM", "PRAGMA", "TOP", "my_word", "other_word"} {
				fmt.Fprintf(&sb, "%s:%v/%v/%v ", w, kw.IsKeyword(w), kw.IsReserved(w), kw.GetTokenType(w))
			}
		}
		probe()
		if o.Flag >= 2 {
			_ = kw.AddKeyword(keywords.Keyword{Word: "MY_WORD", Type: models.TokenTypeKeyword, Reserved: true})
			probe()
		}
		res = string(d) + " " + sb.String()
	case ParserDialect:
		ds := keywords.AllDialects()
		d := ds[(len(o.SQL)+o.Flag)%len(ds)]
		a, err := parser.ParseWithDialect(o.SQL, d)
		res = treeCanon(a, err)
		keepTree(a)
	case TreeSQL:
		a, err := gosqlx.Parse(o.SQL)
		if err != nil {
			res = canon.Err(err)
			break
		}
		st := ast.ReadableStyle()
		if o.Flag&1 == 1 {
			st = ast.CompactStyle()
		}
		before := canon.Of(a)
		res = "sql=" + canon.Of(a.SQL()) + " fmt=" + canon.Of(a.Format(st))
		if canon.Of(a) != before {
			res += " " + TreeMutated
		}
		keepTree(a)
	case FormatterFormat:
		s, err := formatter.New(formatter.Options{IndentSize: o.Flag, Uppercase: o.Flag&1 == 1, Compact: o.Flag&2 == 2}).Format(o.SQL)
		res = "text=" + canon.Of(s) + " err=" + canon.Err(err)
	case Extract:
		a, err := gosqlx.Parse(o.SQL)
		if err != nil {
			res = canon.Err(err)
			break
		}
		before := canon.Of(a)
		tabs, cols, fns := gosqlx.ExtractTables(a), gosqlx.ExtractColumns(a), gosqlx.ExtractFunctions(a)
		md := gosqlx.ExtractMetadata(a)
		mutated := canon.Of(a) != before
		res = "tables=" + sortedSet(tabs) + " cols=" + sortedSet(cols) + " funcs=" + sortedSet(fns) +
			" md=" + sortedSet(md.Tables) + sortedSet(md.Columns) + sortedSet(md.Functions)
		if mutated {
			res += " " + TreeMutated
		}
		keep("extracted-tables", tabs, nil)
		keep("extracted-columns", cols, nil)
		keep("extracted-metadata", md, nil)
		keepTree(a)
	case ScanSQL:
		r := security.NewScanner().ScanSQL(o.SQL)
		res = canon.Of(r)
		keep("scan-result", r, nil)
	case ScanTree:
		a, err := gosqlx.Parse(o.SQL)
		if err != nil {
			res = canon.Err(err)
			break
		}
		before := canon.Of(a)
		r := security.NewScanner().Scan(a)
		res = canon.Of(r)
		if canon.Of(a) != before {
			res += " " + TreeMutated
		}
		keep("scan-result", r, nil)
		keepTree(a)
	case Lint:
		fr := theLinter.LintString(o.SQL, "w.sql")
		res = canon.Of(fr)
		keep("lint-result", fr, nil)
	case Suggest:
		res = canon.Of(goerrors.SuggestKeyword(o.SQL))
	case Observe:
		_ = metrics.GetStats()
		_ = goerrors.GetSuggestionCacheStats()
		_ = goerrors.SuggestionCacheSize()
		_ = config.GetConfigCacheStats()
		_ = metrics.IsEnabled()
		res = "observed"
	case Monitor:
		monitor.RecordTokenizerCall(1000, 7, nil)
		monitor.RecordParserCall(2000, nil)
		monitor.RecordPoolHit()
		if o.Flag&1 == 1 {
			monitor.RecordPoolMiss()
		}
		_ = monitor.GetMetrics()
		res = "monitored"
	case LintAllRules:
		// L006/L009 print map-order-dependent messages, so their output is not an
		// observable; the shared rule values are still exercised for races
		_ = allRulesLinter.LintString(o.SQL, "w.sql")
		res = "linted"
	case ConfigLoad:
		if len(cfgFiles) == 0 {
			res = "no-config-files"
			break
		}
		c, err := config.LoadFromFileCached(cfgFiles[o.Flag%len(cfgFiles)])
		// the directory name carries the process id: not part of the result
		res = strings.ReplaceAll("cfg="+canon.Of(c)+" err="+canon.Err(err), cfgDir, "<cfgdir>")
		if c != nil {
			keep("config", c.Clone(), nil)
			// the returned config belongs to the caller, who may change it: the cache
			// must not be affected (a later load must still return the file's content)
			c.Format.Indent = 99
			c.Validation.Dialect = "changed-by-caller"
		}
	case TransformFromSQL:
		// rule values are built once and applied to many trees, as the package doc shows
		a, err := gosqlx.Parse(o.SQL)
		if err != nil || len(a.Statements) == 0 {
			res = canon.Err(err)
			break
		}
		var aerr error
		switch o.Flag {
		case 0, 1:
			aerr = transform.Apply(a.Statements[0], sharedWhereRule)
		case 2:
			aerr = transform.Apply(a.Statements[0], sharedJoinRule)
		case 3:
			aerr = transform.Apply(a.Statements[0], sharedWhereRule, sharedJoinRule)
		}
		// paging rules: one rule value reused for many trees, and now and then a
		// different limit on top of it for this tree only
		switch len(o.SQL) % 4 {
		case 0:
			aerr2 := transform.Apply(a.Statements[0], sharedLimitRule, sharedOffsetRule)
			_ = aerr2
		case 1:
			_ = transform.Apply(a.Statements[0], sharedLimitRule)
			_ = transform.Apply(a.Statements[0], transform.SetLimit(10+o.Flag), transform.SetOffset(3))
		}
		res = treeCanon(a, aerr)
		keepTree(a)
	case TransformRules:
		// rules built by the caller from its own nodes and from parts of the tree:
		// what a rule detaches stays the caller's, what it attaches becomes the
		// tree's; nothing the caller still holds may be recycled or zeroed
		a, err := gosqlx.Parse(o.SQL)
		if err != nil || len(a.Statements) == 0 {
			res = canon.Err(err)
			keepTree(a)
			break
		}
		st := a.Statements[0]
		sel, _ := st.(*ast.SelectStatement)
		fresh := func() ast.Expression {
			return &ast.BinaryExpression{Left: &ast.Identifier{Name: "role"}, Operator: "=", Right: &ast.LiteralValue{Value: "admin", Type: "string"}}
		}
		var where *ast.Expression
		switch x := st.(type) {
		case *ast.SelectStatement:
			where = &x.Where
		case *ast.UpdateStatement:
			where = &x.Where
		case *ast.DeleteStatement:
			where = &x.Where
		}
		var aerr error
		var detached []any
		switch (len(o.SQL) + o.Flag*5) % 12 {
		case 0: // widen the filter: the new predicate wraps the old one
			if where != nil && *where != nil {
				aerr = transform.Apply(st, transform.ReplaceWhere(&ast.BinaryExpression{Left: *where, Operator: "OR", Right: fresh()}))
			}
		case 1: // keep the old predicate (to move it elsewhere), put a new one
			if where != nil && *where != nil {
				detached = append(detached, *where)
			}
			aerr = transform.Apply(st, transform.ReplaceWhere(fresh()))
		case 2:
			if where != nil && *where != nil {
				detached = append(detached, *where)
			}
			aerr = transform.Apply(st, transform.RemoveWhere())
		case 3:
			aerr = transform.Apply(st, transform.AddWhere(fresh()), transform.AddWhere(fresh()))
		case 4:
			if sel != nil && len(sel.Columns) > 0 {
				detached = append(detached, sel.Columns[0])
			}
			aerr = transform.Apply(st, transform.AddColumn(&ast.Identifier{Name: "extra_col"}), transform.RemoveColumn("id"), transform.RemoveColumn("name"))
		case 5:
			aerr = transform.Apply(st, transform.ReplaceColumn("id", "pk"), transform.ReplaceColumn("x", "x2"), transform.AddSelectStar())
		case 6:
			if sel != nil && len(sel.Joins) > 0 && sel.Joins[0].Condition != nil {
				detached = append(detached, sel.Joins[0].Condition)
			}
			aerr = transform.Apply(st, transform.AddJoin("LEFT", "audit", fresh()), transform.RemoveJoin("j1"), transform.RemoveJoin("orders"))
		case 7:
			aerr = transform.Apply(st, transform.SetLimit(7), transform.SetOffset(2), transform.RemoveLimit(), transform.SetLimit(9), transform.RemoveOffset())
		case 8:
			if sel != nil && len(sel.OrderBy) > 0 {
				detached = append(detached, sel.OrderBy[0].Expression)
			}
			aerr = transform.Apply(st, transform.RemoveOrderBy(), transform.AddOrderBy("created_at", true), transform.AddOrderBy("id", false))
		case 9:
			aerr = transform.Apply(st, transform.ReplaceTable("t", "t_v2"), transform.ReplaceTable("users", "people"), transform.AddTableAlias("orders", "o9"), transform.QualifyColumns("t_v2"))
		case 10: // the same caller-built node given to two trees' rules is the caller's mistake; two rules, two nodes
			aerr = transform.Apply(st, transform.AddWhere(fresh()), transform.AddColumn(fresh()), transform.AddJoin("INNER", "roles", fresh()))
		default:
			if where != nil && *where != nil {
				old := *where
				aerr = transform.Apply(st, transform.RemoveWhere(), transform.AddWhere(old), transform.AddWhere(fresh()))
			}
		}
		// only what really left the tree is the caller's alone
		stillInTree := map[uintptr]bool{}
		if sel != nil {
			for _, c := range sel.Columns {
				stillInTree[reflect.ValueOf(c).Pointer()] = true
			}
			for _, j := range sel.Joins {
				if j.Condition != nil {
					stillInTree[reflect.ValueOf(j.Condition).Pointer()] = true
				}
			}
			for _, ob := range sel.OrderBy {
				if ob.Expression != nil {
					stillInTree[reflect.ValueOf(ob.Expression).Pointer()] = true
				}
			}
		}
		if where != nil && *where != nil {
			stillInTree[reflect.ValueOf(*where).Pointer()] = true
		}
		kept := detached[:0]
		for _, d := range detached {
			if rv := reflect.ValueOf(d); rv.Kind() == reflect.Ptr && !stillInTree[rv.Pointer()] {
				kept = append(kept, d)
			}
		}
		detached = kept
		res = treeCanon(a, aerr)
		for _, d := range detached {
			res += " detached=" + canon.Of(d)
			keep("detached-part", d, nil)
		}
		keepTree(a)
	case ParseCtxCancelled:
		// Flag and the input length pick the poll at which the context turns done
		a, err := gosqlx.ParseWithContext(simctx.New(1+(o.Flag*5+len(o.SQL))%14, context.Canceled), o.SQL)
		res = treeCanon(a, err)
		keepTree(a)
	case ParserStrict, ParserPooledOptions, ParserPositions:
		t, _ := tokenizer.New()
		toks, terr := t.Tokenize([]byte(o.SQL))
		if terr != nil {
			res = canon.Err(terr)
			break
		}
		var a *ast.AST
		var err error
		switch o.Kind {
		case ParserStrict:
			a, err = parser.NewParser(parser.WithStrictMode()).ParseFromModelTokens(toks)
		case ParserPositions:
			a, err = parser.NewParser().ParseFromModelTokensWithPositions(toks)
		default:
			p := parser.GetParser()
			if o.Flag&1 == 1 {
				p.ApplyOptions(parser.WithStrictMode())
			}
			if o.Flag&2 == 2 {
				p.ApplyOptions(parser.WithDialect("mysql"))
			}
			a, err = p.ParseFromModelTokens(toks)
			parser.PutParser(p)
		}
		res = treeCanon(a, err)
		keepTree(a)
	case Span:
		a, err := gosqlx.Parse(o.SQL)
		if err != nil || len(a.Statements) == 0 {
			res = canon.Err(err)
			break
		}
		sp := models.Span{Start: models.Location{Line: 1 + o.Flag, Column: 2}, End: models.Location{Line: 3, Column: 4 + o.Flag}}
		node := a.Statements[0]
		ast.SetSpan(node, sp)
		got := ast.GetSpan(node)
		res = "span=" + canon.Of(got)
		if got != sp {
			res += " MISMATCH want=" + canon.Of(sp)
		}
		keepTree(a)
	}
	return res, held
}

func panicSite(stack string) string {
	for _, l := range strings.Split(stack, "\n") {
		l = strings.TrimSpace(l)
		if i := strings.Index(l, "/repo/pkg/"); i >= 0 {
			l = l[i+6:]
			if j := strings.Index(l, " "); j >= 0 {
				l = l[:j]
			}
			return l
		}
	}
	return "?"
}

// ResetGlobals puts every process-wide table the operations touch into its
// initial state (between simulated runs).
func ResetGlobals() {
	metrics.Disable()
	metrics.Reset()
	goerrors.ClearSuggestionCache()
	goerrors.ResetSuggestionCacheStats()
	config.ClearConfigCache()
	config.ResetConfigCacheStats()
	monitor.Reset()
}

// WarmUp executes every kind once so that lazily initialised process state
// (sync.Once tables, keyword maps) is the same in every process before the
// first simulated run – a replay in a fresh process then sees the same state.
func WarmUp() {
	for k := Kind(0); k < NKinds; k++ {
		Op{Kind: k, SQL: "SELECT a FROM t WHERE a = 1 -- c", SQL2: "SELCT 1"}.Exec(false)
		Op{Kind: k, SQL: "SELCT * FORM t", SQL2: "SELECT 1"}.Exec(false)
	}
	ResetGlobals()
}
