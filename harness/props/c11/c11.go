// Package c11: cancellation is honoured promptly, reported as such, and leaves
// no residue. One run = one (input, entry point): the uncancelled call under a
// counting context gives P polls; then the context turns done at every poll
// index k in [0,P) with both errors (fault enumeration).
package c11

import (
	"context"
	"errors"
	"fmt"
	"sort"
	"strings"
	"time"

	goerrors "github.com/ajitpratap0/GoSQLX/pkg/errors"
	"github.com/ajitpratap0/GoSQLX/pkg/gosqlx"
	"github.com/ajitpratap0/GoSQLX/pkg/models"
	"github.com/ajitpratap0/GoSQLX/pkg/sql/ast"
	"github.com/ajitpratap0/GoSQLX/pkg/sql/parser"
	"github.com/ajitpratap0/GoSQLX/pkg/sql/token"
	"github.com/ajitpratap0/GoSQLX/pkg/sql/tokenizer"

	"verif/props/probe"
	"verif/sim/canon"
	"verif/sim/core"
	"verif/sim/gen"
	"verif/sim/pool"
	"verif/sim/simctx"
	"verif/sim/tape"
	"verifshim/simhook"
)

type P struct {
	env  *core.Env
	pcfg probe.ParCfg
}

func New() core.Property { return &P{} }

func (p *P) ID() string    { return "C11" }
func (p *P) Level() string { return "fault_enumeration" }
func (p *P) Rule() string {
	return "one case = (input, entry point); the context is made to turn done at EVERY poll index k of the uncancelled run (all k for P<=400, else k<=50, k>=P-50 and sampled k) x {Canceled, DeadlineExceeded}; non-trivial = the uncancelled run polled the context at least 3 times and at least one cancellation was observed inside tokenizing/parsing (k>=1); distinct = distinct (entry point, input) pairs"
}
func (p *P) Runs(tier string) int {
	if tier == "thorough" {
		return 240000
	}
	return 4500
}
func (p *P) Init(env *core.Env) error { p.env = env; return nil }

// famSizes: sizes of the one-big-expression inputs (the largest only in thorough)
func (p *P) famSizes() []int {
	if p.env != nil && p.env.Tier == "thorough" {
		return []int{40, 150, 600, 2500}
	}
	return []int{40, 150, 600, 600}
}
func (p *P) Assumptions() []string {
	return []string{
		"the library observes cancellation only by polling ctx.Err() (ctx.Done() is also simulated, and its use is counted); the simulated context turns done exactly at poll k and stays done",
		"inputs are sampled (corpus, grammar generator, fault-like inputs); cancellation points per input are enumerated completely up to P=400",
		"promptness is judged only against the documented poll intervals (tokenizer: once per 100 tokens; parser: once per top-level statement) and against 'at most 3 further polls after the first non-nil Err()'",
	}
}
func (p *P) Components() map[string]string {
	return map[string]string{
		"tokenizer, parser, gosqlx entry points, AST pools' users": "real code (sync/atomic imports rewritten to the shim)",
		"context":   "stub (simctx.Ctx: counting, fires at poll k)",
		"sync.Pool": "shim (simulated pool: forced hit on tokenizer/parser pools for the residue probe)",
		"clock":     "real; ParseWithTimeout is exercised only with timeouts that are deterministic under any clock (<=0, or one hour)",
	}
}

const (
	eGosqlx = iota
	eTokenizeCtx
	eParseCtxModel
	eParseCtx
	nEntries
)

var entryNames = []string{"gosqlx.ParseWithContext", "Tokenizer.TokenizeContext", "Parser.ParseContextFromModelTokens", "Parser.ParseContext"}

func onlyInstancePools(pi *simhook.PoolInfo) bool {
	return strings.Contains(pi.Site, "tokenizer/pool.go") && strings.Contains(pi.Site, "Tokenizer") ||
		strings.Contains(pi.Site, "parser/parser.go")
}

// structuredCode returns the code of the outermost structured error in err.
func structuredCode(err error) string {
	var ge *goerrors.Error
	if errors.As(err, &ge) {
		return string(ge.Code)
	}
	return "unstructured"
}

func shape(sql string) string {
	u := strings.ToUpper(sql)
	var tags []string
	for _, k := range []string{"WITH", "CASE", "JOIN", "UNION", "EXCEPT", "INTERSECT", "IN (SELECT", "EXISTS", "OVER", "BETWEEN", "ARRAY", "MERGE", "INSERT", "UPDATE", "DELETE", "CREATE"} {
		if strings.Contains(u, k) {
			tags = append(tags, k)
		}
	}
	return strings.Join(tags, "+")
}

// limitInput: exactly the documented token limit (tokenizer.MaxTokens), one
// less or one more, with or without white space at the end - where the
// context-aware and the context-free tokenizer must agree like anywhere else.
func limitInput(delta int, trailing bool) string {
	n := tokenizer.MaxTokens + delta // tokens without the end marker
	var sb strings.Builder
	sb.Grow(2*n + n/400 + 16)
	sb.WriteString("SELECT 1") // 2 tokens
	for i := 2; i+1 < n; i += 2 {
		sb.WriteString(",1") // 2 tokens
		if i%800 == 0 {
			sb.WriteByte('\n')
		}
	}
	if n%2 == 1 {
		sb.WriteString(" x") // one more token (an alias)
	}
	if trailing {
		sb.WriteString("\n")
	}
	return sb.String()
}

func (p *P) input(g gen.G) string {
	if g.S.Intn(1500, "c11.limit") == 1499 {
		return limitInput(g.S.Intn(3, "c11.limitdelta")-1, g.S.Intn(2, "c11.limittrail") == 1)
	}
	switch g.S.Intn(11, "c11.input") {
	case 10:
		// nothing to parse: the context still decides the answer
		return []string{"", " \n\t ", "-- only a comment", "/* only */ -- comments\n", ";", "\n\n"}[g.S.Intn(6, "c11.nostmt")]
	case 0, 1, 2, 3:
		return g.Stmt(2)
	case 4:
		return g.Multi()
	case 5:
		return gen.Corpus()[g.S.Intn(len(gen.Corpus()), "corp")]
	case 6:
		return g.Feature()
	case 7:
		return g.Stmt(3)
	case 8:
		if g.S.Intn(14, "c11.bigmulti") == 13 {
			// larger than any window a scanner may pre-process the text in
			return gen.BigMultiline([]int{70, 140}[g.S.Intn(2, "c11.bigkib")], g.S.Intn(3, "c11.bigbad"))
		}
		if g.S.Intn(2, "c11.longtoken") == 1 {
			// one long token: work (and any polling) inside a comment, string or quoted body
			return gen.LongToken(g.S.Intn(5, "ltkind"), []int{600, 4100, 4100, 9000, 20000}[g.S.Intn(5, "ltsize")])
		}
		return gen.Long([]int{90, 101, 199, 201, 450, 1200, 2500, 4200, 9000}[g.S.Intn(9, "long")])
	default:
		return g.FaultLike()
	}
}

type outcome struct {
	tree  any
	err   error
	canon string
}

func (p *P) Run(src *tape.Source, trace bool) *core.Result {
	r := core.NewResult()
	g := gen.G{S: src}
	entry := src.Intn(nEntries, "c11.entry")
	sql := p.input(g)
	famExprs := 0
	if src.Intn(12, "c11.family") == 11 {
		// an input whose bulk sits inside one top-level expression
		sql, famExprs = gen.ExprFamily(src.Intn(4, "c11.fam"), p.famSizes()[src.Intn(len(p.famSizes()), "c11.famn")])
		if entry == eTokenizeCtx {
			entry = eParseCtxModel
		}
	}
	pooled := src.Intn(2, "c11.pooled") == 1
	r.CaseKey = canon.Hash(fmt.Sprint(entry, pooled, "\x00", sql))
	r.Tracef(trace, fmt.Sprintf("entry=%s pooled=%v input=%q", entryNames[entry], pooled, sql))

	simhook.PurgeAll()
	ctl := &pool.Ctl{S: src, Mode: pool.AlwaysMiss}
	ctl.Install()
	defer pool.Uninstall()

	// instances for the direct entry points
	var tkz *tokenizer.Tokenizer
	var par *parser.Parser
	// the holder's configuration of the parser used by the direct entry points
	pcfg := probe.ParCfg{}
	switch src.Intn(4, "c11.pcfg") {
	case 1:
		pcfg.Dialect = "mysql"
	case 2:
		pcfg.Strict = true
	case 3:
		pcfg.Dialect, pcfg.Strict = "sqlserver", true
	}
	p.pcfg = pcfg
	newInst := func() {
		if pooled {
			tkz = tokenizer.GetTokenizer()
			par = parser.GetParser()
			par.ApplyOptions(pcfg.Opts()...)
		} else {
			tkz, _ = tokenizer.New()
			par = parser.NewParser(pcfg.Opts()...)
		}
	}
	newInst()

	var modelToks []models.TokenWithSpan
	var parserToks []token.Token
	if entry == eParseCtxModel || entry == eParseCtx {
		t, _ := tokenizer.New()
		mt, err := t.Tokenize([]byte(sql))
		if err != nil {
			entry = eTokenizeCtx // nothing to parse: exercise the tokenizer instead
		} else {
			modelToks = mt
		}
	}
	if entry == eParseCtx {
		_, toks, err := parser.ParseBytesWithTokens([]byte(sql))
		if err != nil {
			entry = eParseCtxModel
		} else {
			parserToks = toks
		}
	}

	call := func(ctx context.Context) outcome {
		var tree any
		var err error
		var extra string
		switch entry {
		case eGosqlx:
			var a *ast.AST
			a, err = gosqlx.ParseWithContext(ctx, sql)
			if a != nil {
				tree = a
			}
		case eTokenizeCtx:
			var toks []models.TokenWithSpan
			toks, err = tkz.TokenizeContext(ctx, []byte(sql))
			if toks != nil {
				tree = toks
			}
			if err == nil {
				extra = " comments=" + canon.Of(tkz.Comments)
			}
		case eParseCtxModel:
			var a *ast.AST
			a, err = par.ParseContextFromModelTokens(ctx, modelToks)
			if a != nil {
				tree = a
			}
		case eParseCtx:
			var a *ast.AST
			a, err = par.ParseContext(ctx, parserToks)
			if a != nil {
				tree = a
			}
		}
		return outcome{tree, err, "tree=" + canon.Of(tree) + " err=" + canon.Err(err) + extra}
	}
	free := func() outcome {
		var tree any
		var err error
		var extra string
		switch entry {
		case eGosqlx:
			var a *ast.AST
			a, err = gosqlx.Parse(sql)
			if a != nil {
				tree = a
			}
		case eTokenizeCtx:
			t := probe.FreshTokenizer(probe.TokCfg{})
			var toks []models.TokenWithSpan
			toks, err = t.Tokenize([]byte(sql))
			if toks != nil {
				tree = toks
			}
			if err == nil {
				extra = " comments=" + canon.Of(t.Comments)
			}
		case eParseCtxModel:
			var a *ast.AST
			a, err = parser.NewParser(pcfg.Opts()...).ParseFromModelTokens(modelToks)
			if a != nil {
				tree = a
			}
		case eParseCtx:
			var a *ast.AST
			a, err = parser.NewParser(pcfg.Opts()...).Parse(parserToks)
			if a != nil {
				tree = a
			}
		}
		return outcome{tree, err, "tree=" + canon.Of(tree) + " err=" + canon.Err(err) + extra}
	}

	// --- uncancelled run: P polls; must equal the context-free call
	never := simctx.Never()
	never.RecordSites = true
	o0 := call(never)
	P := never.Polls
	of := free()
	r.Steps += int64(P)
	if o0.canon != of.canon {
		r.Fail("never-firing-equals-context-free", entryNames[entry]+" "+probe.Part(o0.canon, of.canon),
			fmt.Sprintf("%s with a context that never fires differs from the context-free call on %q: %s", entryNames[entry], sql, canon.Diff(o0.canon, of.canon)))
	}
	if never.DoneCalls > 0 {
		r.Probes["library-called-ctx.Done"]++
	}
	// promptness against the documented poll intervals
	switch entry {
	case eTokenizeCtx:
		if toks, ok := o0.tree.([]models.TokenWithSpan); ok && o0.err == nil {
			if need := (len(toks) - 1) / 100; P-1 < need {
				r.Fail("promptness", entryNames[entry]+" polls<tokens/100",
					fmt.Sprintf("tokenizing %d tokens polled the context %d times (documented: once per 100 tokens)", len(toks), P))
			}
			if len(toks) > 100 {
				r.Probes["tokenize-crossed-100-token-poll"]++
			}
		}
	case eParseCtx, eParseCtxModel, eGosqlx:
		if a, ok := o0.tree.(*ast.AST); ok && a != nil && o0.err == nil {
			if P < len(a.Statements) {
				r.Fail("promptness", entryNames[entry]+" polls<statements",
					fmt.Sprintf("parsing %d statements polled the context %d times (documented: before each statement)", len(a.Statements), P))
			}
			if len(a.Statements) > 1 {
				r.Probes["multi-statement-input"]++
			}
		}
	}

	// documented: the parser polls the context at the start of every expression,
	// recursively – an input with N nested expressions is polled at least N times
	// (otherwise a cancellation arriving inside a huge list is not seen until the
	// list has been parsed: unbounded further work)
	if famExprs > 0 && o0.err == nil && entry != eTokenizeCtx {
		r.Probes["expression-family-input"]++
		if P < famExprs {
			r.Fail("promptness", entryNames[entry]+" polls<expressions",
				fmt.Sprintf("an input with at least %d nested expressions inside one top-level expression was polled only %d times (documented: the context is checked at the start of every expression, recursively): a cancellation arriving inside it goes unnoticed for the rest of the expression; input %q", famExprs, P, clipS(sql, 120)))
		}
	}
	// --- a context that is done before the call: no result, the context's error -
	// whatever the input is and whether or not the library gets to a poll
	for _, E := range []error{context.Canceled, context.DeadlineExceeded} {
		simhook.PurgeAll()
		newInst()
		ctx := simctx.New(0, E)
		o := call(ctx)
		r.Evals++
		r.Faults["already-done/"+map[error]string{context.Canceled: "Canceled", context.DeadlineExceeded: "DeadlineExceeded"}[E]]++
		if o.tree != nil {
			r.Fail("cancel-returns-no-tree", entryNames[entry]+" already-done", fmt.Sprintf("context done before the call, input %q: a result was returned", clipS(sql, 120)))
		}
		if o.err == nil {
			r.Fail("cancel-reported", entryNames[entry]+" already-done nil-error", fmt.Sprintf("context done (%v) before the call, input %q: err == nil", E, clipS(sql, 120)))
		} else if !errors.Is(o.err, E) {
			r.Fail("cancel-reported", entryNames[entry]+" already-done swallowed-by="+structuredCode(o.err),
				fmt.Sprintf("context done (%v) before the call, input %q (%d polls in the uncancelled run): errors.Is(err, ctxErr) is false; err = %v", E, clipS(sql, 120), P, o.err))
		}
		if pooled {
			tokenizer.PutTokenizer(tkz)
			parser.PutParser(par)
		}
	}
	// --- enumerate cancellation points
	ks := make([]int, 0, P)
	if P <= 400 {
		for k := 0; k < P; k++ {
			ks = append(ks, k)
		}
	} else {
		for k := 0; k <= 50; k++ {
			ks = append(ks, k)
		}
		for i := 0; i < 60; i++ {
			ks = append(ks, 51+src.Intn(P-102, "c11.k"))
		}
		for k := P - 50; k < P; k++ {
			ks = append(ks, k)
		}
		// every poll SITE of the library (code location of the Err() call) at its
		// first two and its last occurrence: a rarely reached poll - one per few
		// thousand tokens, say - is a cancellation point like any other
		first, second, last := map[uintptr]int{}, map[uintptr]int{}, map[uintptr]int{}
		for k, site := range never.Sites {
			if _, ok := first[site]; !ok {
				first[site] = k
			} else if _, ok := second[site]; !ok {
				second[site] = k
			}
			last[site] = k
		}
		for _, m := range []map[uintptr]int{first, second, last} {
			for _, k := range m {
				if k > 50 && k < P-50 {
					ks = append(ks, k)
				}
			}
		}
		sort.Ints(ks)
		ks = dedupInts(ks)
		r.Probes["P>400-sampled"]++
		r.Probes[fmt.Sprintf("poll-sites-in-a-sampled-run=%d", len(first))]++
	}
	if len(sql) > 32*1024 && len(ks) > 30 {
		// very large inputs: every cancelled call costs milliseconds - keep the
		// first and last points and an even sample of the rest (the per-site
		// points are part of ks already and are favoured by keeping both ends)
		thin := append([]int{}, ks[:8]...)
		step := (len(ks) - 16) / 14
		if step < 1 {
			step = 1
		}
		for i := 8; i < len(ks)-8; i += step {
			thin = append(thin, ks[i])
		}
		thin = append(thin, ks[len(ks)-8:]...)
		ks = dedupInts(thin)
		r.Probes["very-large-input-thinned-cancellation-points"]++
	}
	if len(sql) > 1<<20 && len(ks) > 3 {
		// multi-megabyte input: the comparison of the never-firing with the
		// context-free run and the already-done case are what it is for
		ks = []int{ks[0], ks[len(ks)/2], ks[len(ks)-1]}
		r.Probes["input-at-the-documented-token-limit"]++
	}
	nFull := 0
	fullAt := map[int]bool{}
	if len(ks) > 0 {
		for i := 0; i < 3; i++ {
			fullAt[ks[src.Intn(len(ks), "c11.fullprobe")]] = true
		}
		fullAt[ks[len(ks)-1]] = true
	}
	rot := src.Intn(probe.Rotations(), "c11.rot")
	sh := shape(sql)
	observedInside := false
	for _, k := range ks {
		for ei, E := range []error{context.Canceled, context.DeadlineExceeded, context.Canceled} {
			if ei > 0 && len(sql) > 32*1024 && k != ks[0] && k != ks[len(ks)-1] && k%7 != 0 {
				continue // very large input: the other two flavours at a sample of the points only
			}
			// fresh instances per cancellation point: whatever the residue probe
			// finds is then due to the cancelled call alone, not to earlier probes
			simhook.PurgeAll() // pools then hold only what this cancelled call releases
			newInst()
			ctx := simctx.New(k, E)
			if ei == 2 {
				// a context from context.WithCancelCause cancelled with an application
				// error: Err() is still context.Canceled, context.Cause() is the cause
				ctx = simctx.NewWithCause(k)
			}
			o := call(ctx)
			r.Evals++
			r.Steps += int64(ctx.Polls)
			if !ctx.Fired() {
				// the run took a different path and never reached poll k: legitimate only if it
				// is not shorter than the uncancelled run... it cannot be: same input, same code.
				r.Fail("determinism-of-polls", entryNames[entry], fmt.Sprintf("uncancelled run polled %d times but a run cancelled at poll %d never reached it (input %q)", P, k, sql))
				continue
			}
			r.Faults["cancel@"+map[bool]string{true: "poll0", false: "pollk"}[k == 0]+"/"+[]string{"Canceled", "DeadlineExceeded", "Canceled-with-cause"}[ei]]++
			if k >= 1 {
				observedInside = true
			}
			if sh != "" && k >= 2 {
				r.Probes["cancel-inside:"+sh]++
			}
			if o.tree != nil {
				r.Fail("cancel-returns-no-tree", entryNames[entry], fmt.Sprintf("cancelled at poll %d/%d of %q but a result was returned", k, P, sql))
			}
			if o.err == nil {
				r.Fail("cancel-reported", entryNames[entry]+" nil-error", fmt.Sprintf("cancelled at poll %d/%d of %q but err == nil", k, P, sql))
			} else if !errors.Is(o.err, E) {
				r.Fail("cancel-reported", entryNames[entry]+" swallowed-by="+structuredCode(o.err),
					fmt.Sprintf("cancelled (%v) at poll %d/%d of %q; errors.Is(err, ctxErr) is false; err = %v", E, k, P, sql, o.err))
			}
			// residue in the shared pools: the cancelled call's own clean-up must not
			// release anything twice (the next two users would share one object)
			for _, pi := range simhook.Pools() {
				if pi.Dup != nil && pi.Dup() {
					r.Fail("no-residue", entryNames[entry]+" pool-holds-an-object-twice "+poolName(pi.Site),
						fmt.Sprintf("after %s was cancelled (%v) at poll %d/%d of %q the pool used at %s holds the same object twice: the call's clean-up released it twice, two later users would share it", entryNames[entry], E, k, P, sql, pi.Site))
					pi.Purge()
				}
			}
			if ctx.After > 3 {
				r.Fail("bounded-work-after-cancel", entryNames[entry], fmt.Sprintf("library polled the context %d more times after it had answered %v at poll %d of %q", ctx.After, E, k, sql))
			}
			// --- no residue: the instances used by the cancelled call remain fit for reuse
			full := fullAt[k] && ei == 0
			if full {
				nFull++
			}
			p.residue(r, src, ctl, entry, tkz, par, pooled, full, rot, k, sql)
			if pooled {
				tokenizer.PutTokenizer(tkz)
				parser.PutParser(par)
			}
		}
	}

	// --- the error handed to a caller is the caller's: a later call on the same
	// instance (cancelled for another reason) must not change what it says
	if len(ks) >= 2 && entry != eGosqlx {
		simhook.PurgeAll()
		newInst()
		k1 := ks[1+src.Intn(len(ks)-1, "c11.stab1")]
		k2 := ks[1+src.Intn(len(ks)-1, "c11.stab2")]
		e1, e2 := context.Canceled, context.DeadlineExceeded
		if src.Intn(2, "c11.stabflip") == 1 {
			e1, e2 = e2, e1
		}
		o1 := call(simctx.New(k1, e1))
		if o1.err != nil {
			text1, is1 := o1.err.Error(), errors.Is(o1.err, e1)
			o2 := call(simctx.New(k2, e2))
			r.Evals++
			if o1.err.Error() != text1 || errors.Is(o1.err, e1) != is1 {
				r.Fail("no-residue", entryNames[entry]+" earlier-error-changed",
					fmt.Sprintf("the error returned by a call cancelled (%v) at poll %d of %q read %q; after a second call on the same instance, cancelled (%v) at poll %d, the SAME error value reads %q and errors.Is(err, %v) = %v", e1, k1, clipS(sql, 80), text1, e2, k2, o1.err.Error(), e1, errors.Is(o1.err, e1)))
			}
			_ = o2
		}
		if pooled {
			tokenizer.PutTokenizer(tkz)
			parser.PutParser(par)
		}
	}

	// --- timeouts that are deterministic under any clock
	if entry == eGosqlx && src.Intn(4, "c11.timeout") == 3 {
		for _, d := range []time.Duration{0, -time.Second} {
			a, err := gosqlx.ParseWithTimeout(sql, d)
			r.Faults["timeout<=0"]++
			if a != nil || !errors.Is(err, context.DeadlineExceeded) {
				r.Fail("timeout-nonpositive", "gosqlx.ParseWithTimeout", fmt.Sprintf("ParseWithTimeout(%q, %v) = (%v, %v), want (nil, DeadlineExceeded)", sql, d, a != nil, err))
			}
		}
		a, err := gosqlx.ParseWithTimeout(sql, time.Hour)
		var tree any
		if a != nil {
			tree = a
		}
		c := "tree=" + canon.Of(tree) + " err=" + canon.Err(err)
		if c != of.canon {
			r.Fail("never-firing-equals-context-free", "gosqlx.ParseWithTimeout "+probe.Part(c, of.canon), fmt.Sprintf("ParseWithTimeout(%q, 1h) differs from Parse: %s", sql, canon.Diff(c, of.canon)))
		}
	}

	r.Nontrivial = P >= 3 && observedInside
	ctl.Counts(r.Faults)
	r.LogHash = src.Hash() ^ uint64(P)<<1 ^ uint64(r.Evals)<<20 ^ canon.Hash(o0.canon)
	return r
}

func (p *P) residue(r *core.Result, src *tape.Source, ctl *pool.Ctl, entry int, tkz *tokenizer.Tokenizer, par *parser.Parser, pooled, full bool, rot, k int, sql string) {
	fail := func(inst, name, part, diff string) {
		r.Fail("no-residue", fmt.Sprintf("%s %s probe=%s part=%s", entryNames[entry], inst, name, part),
			fmt.Sprintf("after %s was cancelled at poll %d of %q the %s no longer behaves like a fresh one: probe %s differs in %s: %s", entryNames[entry], k, sql, inst, name, part, diff))
	}
	switch entry {
	case eTokenizeCtx:
		used := tokBattery(tkz, full, rot)
		fresh := tokBattery(probe.FreshTokenizer(probe.TokCfg{}), full, rot)
		if n, part, d := probe.Compare(used, fresh); n != "" {
			fail("tokenizer", n, part, d)
		}
	case eParseCtx, eParseCtxModel:
		used := parBattery(par, full, rot)
		fresh := parBattery(probe.FreshParser(p.pcfg), full, rot)
		if n, part, d := probe.Compare(used, fresh); n != "" {
			fail("parser", n, part, d)
		}
	case eGosqlx:
		// the cancelled call's tokenizer went back to the pool: force the next
		// holder to receive it (hit on tokenizer/parser pools only; node pools miss,
		// their cleanliness is C09's) and compare with an always-miss pool.
		if !full {
			return
		}
		ins := []int{0, 5, 8, 10}
		usedC := make([]probe.Res, 0, len(ins))
		ctl.Mode = pool.HitNewest
		ctl.Only = onlyInstancePools
		for _, i := range ins {
			in := probe.Inputs[(i+rot)%len(probe.Inputs)]
			a, err := gosqlx.Parse(in.SQL)
			var tree any
			if a != nil {
				tree = a
			}
			usedC = append(usedC, probe.Res{Name: in.Name + "/gosqlx.Parse", Canon: "tree=" + canon.Of(tree) + " err=" + canon.Err(err)})
		}
		ctl.Mode = pool.AlwaysMiss
		ctl.Only = nil
		freshC := make([]probe.Res, 0, len(ins))
		for _, i := range ins {
			in := probe.Inputs[(i+rot)%len(probe.Inputs)]
			a, err := gosqlx.Parse(in.SQL)
			var tree any
			if a != nil {
				tree = a
			}
			freshC = append(freshC, probe.Res{Name: in.Name + "/gosqlx.Parse", Canon: "tree=" + canon.Of(tree) + " err=" + canon.Err(err)})
		}
		if n, part, d := probe.Compare(usedC, freshC); n != "" {
			fail("pooled tokenizer/parser", n, part, d)
		}
	}
}

// cheap = 3 probes; full = whole battery
func tokBattery(t *tokenizer.Tokenizer, full bool, rot int) []probe.Res {
	if full {
		return probe.TokBattery(t, rot)
	}
	return probe.TokBatteryCheap(t, rot)
}

func parBattery(p *parser.Parser, full bool, rot int) []probe.Res {
	if full {
		return probe.ParBattery(p, rot)
	}
	return probe.ParBatteryCheap(p, rot)
}

func poolName(site string) string {
	if i := strings.LastIndex(site, " "); i >= 0 {
		return site[i+1:]
	}
	return site
}

func clipS(s string, n int) string {
	if len(s) > n {
		return s[:n] + "…"
	}
	return s
}

func dedupInts(a []int) []int {
	out := a[:0]
	for i, v := range a {
		if i == 0 || v != a[i-1] {
			out = append(out, v)
		}
	}
	return out
}
