// Package registry maps property ids to engines.
package registry

import (
	"verif/props/c08"
	"verif/props/c09"
	"verif/props/c10"
	"verif/props/c11"
	"verif/props/c19"
	"verif/sim/core"
)

var extra = map[string]func() core.Property{}

// Register adds an engine that only some binaries link (C18 needs the test
// binary for testing/synctest).
func Register(id string, f func() core.Property) { extra[id] = f }

func Get(id string) core.Property {
	if f := extra[id]; f != nil {
		return f()
	}
	switch id {
	case "C08":
		return c08.New()
	case "C09":
		return c09.New()
	case "C10":
		return c10.New()
	case "C11":
		return c11.New()
	case "C19":
		return c19.New()
	}
	return nil
}
