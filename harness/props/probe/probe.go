// Package probe is the battery of probe calls that distinguishes every piece of
// per-call and per-holder state of a tokenizer or parser instance. The same
// battery (same order) is run on a used instance and on a fresh instance that
// carries the configuration the current holder gave it; canonical results must
// be equal. Used by C08 (histories) and C11 (no residue after cancellation).
package probe

import (
	"strings"

	"github.com/ajitpratap0/GoSQLX/pkg/models"
	"github.com/ajitpratap0/GoSQLX/pkg/sql/ast"
	"github.com/ajitpratap0/GoSQLX/pkg/sql/keywords"
	"github.com/ajitpratap0/GoSQLX/pkg/sql/parser"
	"github.com/ajitpratap0/GoSQLX/pkg/sql/token"
	"github.com/ajitpratap0/GoSQLX/pkg/sql/tokenizer"

	"verif/sim/canon"
	"verif/sim/gen"
	"verif/sim/simctx"
)

type Input struct{ Name, SQL string }

// Inputs of the battery; each distinguishes some field (see DESIGN 4.1).
var Inputs = []Input{
	{"reject-located", "SELECT a,\n  b\nFROM"},        // error location must be its own or zero
	{"dialect-limit", "SELECT * FROM t LIMIT 10, 20"}, // parser dialect
	{"strict-semis", "SELECT 1;;SELECT 2"},            // strict mode
	{"strict-empty", ";"},                             // strict mode / empty
	{"empty", ""},
	{"leading-tabs", "\t\t\t\t\t\t\t\t\t\t\t\t  SELECT a,\tb\n\tFROM t"}, // column bookkeeping (a tab counts 4) after a shorter previous input
	{"leading-tabs-error", "\t\t\t\t\t\t  'unterminated"},                // … and in an error location on the first line
	{"depth-at-limit", gen.Nested(parser.MaxRecursionDepth - 2)},
	{"depth-over-limit", gen.Nested(parser.MaxRecursionDepth + 1)},
	{"short-multiline", "SELECT\n a\nFROM t\nWHERE"}, // line tables after a long input
	{"comment-free", "SELECT 1"},                     // Comments carry-over
	{"commented", "SELECT 1 -- c1\n/* c2 */ FROM t"},
	{"dialect-words", "SELECT zerofill, rownum, qualify, ilike, pragma, `bt` FROM t"}, // tokenizer keyword set
	{"reject-late", "SELECT a FROM t WHERE a = 1 AND (b = 2 OR c = ) ORDER BY a"},
	{"ident-then-unicode-1", "SELECT a FROM t WHERE key_id = 1 AND row_id = 2 AND url_id"},                // leaves keyword-like bytes in a pooled scratch buffer …
	{"unicode-ident", "SELECT 名, é, ñandú, 日本 FROM 表 WHERE 名 = 1"},                                        // … which a non-ASCII identifier must not pick up
	{"literals", "SELECT 'bob', \"Quoted Col\", `bt` FROM \"users\" WHERE city = 'x' AND note = 'it''s'"}, // scratch buffers of string/identifier readers
}

// TokCfg is the configuration a holder can give a tokenizer.
type TokCfg struct{ Dialect keywords.SQLDialect } // "" = tokenizer.New()

func FreshTokenizer(c TokCfg) *tokenizer.Tokenizer {
	if c.Dialect == "" {
		t, _ := tokenizer.New()
		return t
	}
	t, _ := tokenizer.NewWithDialect(c.Dialect)
	return t
}

// ParCfg is the configuration a holder can give a parser.
type ParCfg struct {
	Strict  bool
	Dialect string
}

func (c ParCfg) Opts() []parser.ParserOption {
	var o []parser.ParserOption
	if c.Strict {
		o = append(o, parser.WithStrictMode())
	}
	if c.Dialect != "" {
		o = append(o, parser.WithDialect(c.Dialect))
	}
	return o
}

func FreshParser(c ParCfg) *parser.Parser { return parser.NewParser(c.Opts()...) }

type Res struct {
	Name  string // probe/entry
	Canon string
}

// TokBattery runs the battery on t starting at rotation rot: first
// TokenizeContext over all inputs, then Tokenize over all inputs, so that each
// entry point is also probed right after a DIFFERENT input (a short one before
// one with leading whitespace, a commented one before a comment-free one).
func TokBattery(t *tokenizer.Tokenizer, rot int) []Res {
	out := make([]Res, 0, len(Inputs)*2)
	// rot also decides which entry point sees the instance first: state that only
	// one of them fails to clear must not be wiped by the other one's pass
	tokFirst := (rot/len(Inputs))%2 == 1
	for phase := 0; phase < 2; phase++ {
		for i := range Inputs {
			in := Inputs[(i+rot)%len(Inputs)]
			if (phase == 0) == tokFirst {
				toks, err := t.Tokenize([]byte(in.SQL))
				out = append(out, Res{in.Name + "/Tokenize", "tokens=" + canon.Of(toks) + " err=" + canon.Err(err) + " comments=" + canon.Of(t.Comments) + " dialect=" + string(t.Dialect())})
			} else {
				toks, err := t.TokenizeContext(simctx.Never(), []byte(in.SQL))
				out = append(out, Res{in.Name + "/TokenizeContext", "tokens=" + canon.Of(toks) + " err=" + canon.Err(err) + " comments=" + canon.Of(t.Comments)})
			}
		}
	}
	return out
}

// Rotations is the number of distinct battery orders (argument rot of
// TokBattery / ParBattery ranges over [0, Rotations)).
func Rotations() int { return len(Inputs) * 6 }

var probeTokens [][]models.TokenWithSpan

// parser-token forms of the probe inputs the library accepts (only obtainable
// through a successful parse), and the same list with the token before the end
// marker replaced: a stream of the same length that fails late
var probePTokens, probePTokensCut [][]token.Token

func init() {
	for _, in := range Inputs {
		t, _ := tokenizer.New()
		toks, err := t.Tokenize([]byte(in.SQL))
		if err != nil {
			toks = nil
		}
		probeTokens = append(probeTokens, toks)
		var pt, cut []token.Token
		if tree, ptoks, perr := parser.ParseBytesWithTokens([]byte(in.SQL)); perr == nil && len(ptoks) >= 3 {
			ast.ReleaseAST(tree)
			pt = ptoks
			cut = append([]token.Token{}, ptoks...)
			cut[len(cut)-2] = ptoks[0] // same length, the statement keyword where an operand is due
		}
		probePTokens = append(probePTokens, pt)
		probePTokensCut = append(probePTokensCut, cut)
	}
}

// ParBattery runs the battery on p starting at rotation rot. Position-less
// entry points come first for each input so that stale position tables are
// seen before a positioned call overwrites them.
func ParBattery(p *parser.Parser, rot int) []Res {
	out := make([]Res, 0, len(Inputs)*4+6)
	first := (rot / len(Inputs)) % 3 // which position-less entry point goes first
	noTokFirst := (rot/(len(Inputs)*3))%2 == 0
	if noTokFirst {
		out = noTokens(p, out)
	}
	for i := range Inputs {
		j := (i + rot) % len(Inputs)
		in, toks := Inputs[j], probeTokens[j]
		if toks == nil {
			continue
		}
		if pt, cut := probePTokens[j], probePTokensCut[j]; pt != nil && first == 0 {
			// parser-token entry points, position-less: first in a third of the orders
			out = ptokProbes(p, in.Name, pt, cut, out)
		}
		for k := 0; k < 3; k++ {
			switch (k + first) % 3 {
			case 0:
				tree, err := p.ParseFromModelTokens(toks)
				out = append(out, Res{in.Name + "/ParseFromModelTokens", "tree=" + canon.Of(tree) + " err=" + canon.Err(err)})
			case 1:
				tree, err := p.ParseContextFromModelTokens(simctx.Never(), toks)
				out = append(out, Res{in.Name + "/ParseContextFromModelTokens", "tree=" + canon.Of(tree) + " err=" + canon.Err(err)})
			default:
				stmts, errs := p.ParseWithRecoveryFromModelTokens(toks)
				out = append(out, Res{in.Name + "/ParseWithRecoveryFromModelTokens", "stmts=" + canon.Of(stmts) + " errs=" + canon.Of(errs)})
			}
		}
		if pt, cut := probePTokens[j], probePTokensCut[j]; pt != nil && first != 0 {
			out = ptokProbes(p, in.Name, pt, cut, out)
		}
		tree, err := p.ParseFromModelTokensWithPositions(toks)
		out = append(out, Res{in.Name + "/ParseFromModelTokensWithPositions", "tree=" + canon.Of(tree) + " err=" + canon.Err(err)})
	}
	if !noTokFirst {
		out = noTokens(p, out)
	}
	return out
}

func ptokProbes(p *parser.Parser, name string, pt, cut []token.Token, out []Res) []Res {
	// a caller-built conversion result without a position table, on a list that
	// fails: no position of an earlier call may show in the error
	tree0, err0 := p.ParseWithPositions(&parser.ConversionResult{Tokens: cut})
	out = append(out, Res{name + "/ParseWithPositions(cut,no-table)", "tree=" + canon.Of(tree0) + " err=" + canon.Err(err0)})
	stmts, errs := p.ParseWithRecovery(cut)
	out = append(out, Res{name + "/ParseWithRecovery(cut)", "stmts=" + canon.Of(stmts) + " errs=" + canon.Of(errs)})
	tree, err := p.Parse(cut)
	out = append(out, Res{name + "/Parse(cut)", "tree=" + canon.Of(tree) + " err=" + canon.Err(err)})
	stmts, errs = p.ParseWithRecovery(pt)
	out = append(out, Res{name + "/ParseWithRecovery", "stmts=" + canon.Of(stmts) + " errs=" + canon.Of(errs)})
	tree, err = p.ParseContext(simctx.Never(), pt)
	out = append(out, Res{name + "/ParseContext", "tree=" + canon.Of(tree) + " err=" + canon.Err(err)})
	return out
}

// noTokens probes every entry point with a token list of length zero (not even
// an end marker): nothing of an earlier call may show in the answer.
func noTokens(p *parser.Parser, out []Res) []Res {
	tree, err := p.Parse(nil)
	out = append(out, Res{"no-tokens/Parse", "tree=" + canon.Of(tree) + " err=" + canon.Err(err)})
	tree, err = p.ParseContext(simctx.Never(), nil)
	out = append(out, Res{"no-tokens/ParseContext", "tree=" + canon.Of(tree) + " err=" + canon.Err(err)})
	tree, err = p.ParseWithPositions(&parser.ConversionResult{})
	out = append(out, Res{"no-tokens/ParseWithPositions", "tree=" + canon.Of(tree) + " err=" + canon.Err(err)})
	tree, err = p.ParseFromModelTokens(nil)
	out = append(out, Res{"no-tokens/ParseFromModelTokens", "tree=" + canon.Of(tree) + " err=" + canon.Err(err)})
	tree, err = p.ParseContextFromModelTokens(simctx.Never(), []models.TokenWithSpan{})
	out = append(out, Res{"no-tokens/ParseContextFromModelTokens", "tree=" + canon.Of(tree) + " err=" + canon.Err(err)})
	stmts, errs := p.ParseWithRecovery(nil)
	out = append(out, Res{"no-tokens/ParseWithRecovery", "stmts=" + canon.Of(stmts) + " errs=" + canon.Of(errs)})
	return out
}

// Compare returns the first differing probe (name, which part) or "".
func Compare(used, fresh []Res) (name, part, diff string) {
	for i := range used {
		if i >= len(fresh) {
			return used[i].Name, "missing", ""
		}
		if used[i].Canon != fresh[i].Canon {
			return used[i].Name, Part(used[i].Canon, fresh[i].Canon), canon.Diff(used[i].Canon, fresh[i].Canon)
		}
	}
	return "", "", ""
}

// Part names the first top-level component (tokens/err/comments/tree/...) in
// which two canonical results differ.
func Part(a, b string) string {
	keys := []string{"tokens=", "tree=", "stmts=", "errs=", "err=", "comments=", "dialect="}
	cut := func(s, k string) string {
		i := strings.Index(s, k)
		if i < 0 {
			return ""
		}
		rest := s[i+len(k):]
		end := len(rest)
		for _, k2 := range keys {
			if k2 == k {
				continue
			}
			if j := strings.Index(rest, " "+k2); j >= 0 && j < end {
				end = j
			}
		}
		return rest[:end]
	}
	for _, k := range keys {
		if cut(a, k) != cut(b, k) {
			return strings.TrimSuffix(k, "=")
		}
	}
	return "other"
}

var cheapIdx = []int{0, 5, 8}

// TokBatteryCheap runs three probes (located reject, depth at limit, comment-free).
func TokBatteryCheap(t *tokenizer.Tokenizer, rot int) []Res {
	out := make([]Res, 0, 3)
	idx := []int{9, 0, 8}
	for n := range idx {
		in := Inputs[idx[(n+rot)%3]]
		if (rot/3)%2 == 0 {
			toks, err := t.Tokenize([]byte(in.SQL))
			out = append(out, Res{in.Name + "/Tokenize", "tokens=" + canon.Of(toks) + " err=" + canon.Err(err) + " comments=" + canon.Of(t.Comments)})
		} else {
			toks, err := t.TokenizeContext(simctx.Never(), []byte(in.SQL))
			out = append(out, Res{in.Name + "/TokenizeContext", "tokens=" + canon.Of(toks) + " err=" + canon.Err(err) + " comments=" + canon.Of(t.Comments)})
		}
	}
	return out
}

// ParBatteryCheap runs three position-less probes.
func ParBatteryCheap(p *parser.Parser, rot int) []Res {
	out := make([]Res, 0, 3)
	for n := range cheapIdx {
		i := cheapIdx[(n+rot)%len(cheapIdx)]
		in, toks := Inputs[i], probeTokens[i]
		if (rot/3)%2 == 0 {
			tree, err := p.ParseFromModelTokens(toks)
			out = append(out, Res{in.Name + "/ParseFromModelTokens", "tree=" + canon.Of(tree) + " err=" + canon.Err(err)})
		} else {
			tree, err := p.ParseContextFromModelTokens(simctx.Never(), toks)
			out = append(out, Res{in.Name + "/ParseContextFromModelTokens", "tree=" + canon.Of(tree) + " err=" + canon.Err(err)})
		}
	}
	return out
}
