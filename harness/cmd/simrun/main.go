// simrun is the in-process simulation driver (see verif/sim/runner).
package main

import "verif/sim/runner"

func main() { runner.Main() }
