// Package runner is the in-process simulation driver: driver / worker / one /
// replay roles. It is the body of cmd/simrun and of the C18 test binary (which
// needs a *testing.T for testing/synctest).
package runner

import (
	"encoding/json"
	"flag"
	"fmt"
	"os"
	"os/exec"
	"path/filepath"
	"runtime"
	"runtime/debug"
	"runtime/pprof"
	"sort"
	"strconv"
	"strings"
	"time"

	"verif/props/registry"
	"verif/sim/core"
	"verif/sim/report"
	"verif/sim/tape"
)

var (
	role     = flag.String("role", "driver", "driver|worker|one|replay")
	propID   = flag.String("prop", "", "property id")
	tier     = flag.String("tier", "quick", "quick|thorough")
	seed     = flag.Int64("seed", 1, "VERIF_SEED")
	workers  = flag.Int("workers", 16, "worker processes")
	wIdx     = flag.Int("w", 0, "worker index")
	runsF    = flag.Int("runs", 0, "override number of runs")
	maxSec   = flag.Int("maxsec", 0, "wall-clock cap per worker (0 = tier default)")
	outF     = flag.String("out", "", "worker output file")
	verifD   = flag.String("verif", "/verif", "verif dir")
	repoD    = flag.String("repo", "", "instrumented scratch copy of the repository")
	origD    = flag.String("orig", "/repo", "original repository")
	scratch  = flag.String("scratch", "", "scratch dir")
	tapeF    = flag.String("tape", "", "tape file (role one)")
	fileF    = flag.String("file", "", "replay file (role replay)")
	dumpLog  = flag.String("dumplog", "", "worker: write per-run log hashes to this file (determinism self-test)")
	noEvid   = flag.Bool("noevidence", false, "driver: do not write evidence (self-test)")
	replayD  = flag.String("replaydir", "", "driver: directory for replay files (default <verif>/replays)")
	coldN    = flag.Int("coldruns", -1, "worker: number of cold-start runs of the batch (-1 = none)")
	coldF    = flag.Bool("cold", false, "role one: cold-start run (no warm-up; the process executes exactly this run)")
	liveSeed = flag.Uint64("liveseed", 0, "role one: draw live from this seed instead of replaying a tape")
)

// ChildPrefix is put before the arguments of every child process (the test
// binary needs -test.run etc.).
var ChildPrefix []string

func childArgs(a ...string) []string { return append(append([]string{}, ChildPrefix...), a...) }

func env() *core.Env {
	return &core.Env{Tier: *tier, RepoDir: *repoD, OrigRepo: *origD, Scratch: *scratch, Race: report.RaceBuild, Cold: *coldF}
}

func die(code int, f string, a ...any) {
	fmt.Fprintf(os.Stderr, "simrun: "+f+"\n", a...)
	os.Exit(code)
}

func Main() {
	if !flag.Parsed() {
		flag.Parse()
	}
	debug.SetGCPercent(200)
	switch *role {
	case "driver":
		driver()
	case "worker":
		if f := os.Getenv("VERIF_CPUPROFILE"); f != "" { // profiling aid
			if fh, err := os.Create(f); err == nil {
				pprof.StartCPUProfile(fh)
				defer pprof.StopCPUProfile()
			}
		}
		worker()
	case "one":
		one()
	case "replay":
		replay()
	default:
		die(2, "unknown role %s", *role)
	}
}

func getProp() core.Property {
	p := registry.Get(*propID)
	if p == nil {
		die(2, "unknown property %q", *propID)
	}
	if err := p.Init(env()); err != nil {
		die(2, "init %s: %v", *propID, err)
	}
	return p
}

// ---------------------------------------------------------------- worker

func worker() {
	p := getProp()
	n := p.Runs(*tier)
	if *runsF > 0 {
		n = *runsF
	}
	capSec := *maxSec
	start := time.Now()
	out := report.NewWorkerOut(*propID)
	var logf *os.File
	if *dumpLog != "" {
		logf, _ = os.Create(*dumpLog)
		defer logf.Close()
	}
	for i := *wIdx; i < n; i += *workers {
		if capSec > 0 && time.Since(start) > time.Duration(capSec)*time.Second {
			out.CappedAt = i
			break
		}
		s := tape.Mix(*seed, *propID, i)
		src := tape.Live(s)
		if ix, ok := p.(interface{ Indexed() bool }); ok && ix.Indexed() {
			// the run's first choice is its index in the batch: systematic strata
			src = tape.LivePrefix(s, []uint32{uint32(i)})
		}
		wantTrace := out.WantSample()
		src.KeepLabels = false
		t0 := time.Now()
		res := safeRun(p, src, wantTrace)
		if ms := os.Getenv("VERIF_SLOWRUN_MS"); ms != "" {
			if lim, _ := strconv.Atoi(ms); lim > 0 && time.Since(t0) > time.Duration(lim)*time.Millisecond {
				if f, err := os.OpenFile("/var/tmp/verif-slowruns.log", os.O_APPEND|os.O_CREATE|os.O_WRONLY, 0o644); err == nil {
					fmt.Fprintf(f, "SLOWRUN prop=%s run=%d took=%v draws=%d faults=%v\n", *propID, i, time.Since(t0).Round(time.Millisecond), src.Consumed(), res.Faults)
					f.Close()
				}
			}
		}
		out.Add(i, src, res)
		if res.Poisoned {
			// parked tasks hold real locks: this process cannot run anything else
			out.CappedAt = i
			break
		}
		if logf != nil {
			fmt.Fprintf(logf, "%d %016x %016x\n", i, src.Hash(), res.LogHash)
		}
	}
	// cold-start stratum: each run in a fresh process that has not warmed up
	if *coldN > 0 {
		nc := *coldN
		for j := *wIdx; j < nc; j += *workers {
			if capSec > 0 && time.Since(start) > time.Duration(capSec)*time.Second {
				break
			}
			ls := tape.Mix(*seed, *propID+"/cold", j)
			// the run's first choice is its stratum index: cold strata are covered systematically
			o, err := evalProc([]uint32{uint32(j)}, ls, true, false)
			if err != nil {
				if len(out.Infra) < 5 {
					out.Infra = append(out.Infra, fmt.Sprintf("cold run %d: %v", j, err))
				}
				continue
			}
			res := o.result()
			res.Probes["cold-start-run"]++
			out.AddRaw(1000000000+j, o.Used, o.TapeHash, res, true)
		}
	}
	out.WallS = time.Since(start).Seconds()
	if err := out.Write(*outF); err != nil {
		die(2, "write %s: %v", *outF, err)
	}
}

func safeRun(p core.Property, src *tape.Source, trace bool) (res *core.Result) {
	defer func() {
		if rec := recover(); rec != nil {
			res = core.NewResult()
			res.Infra = fmt.Sprintf("harness panic: %v\n%s", rec, debug.Stack())
		}
	}()
	return p.Run(src, trace)
}

// ---------------------------------------------------------------- one (fresh-process evaluation of one tape)

type oneOut struct {
	Violations []core.Violation  `json:"violations"`
	Used       []uint32          `json:"used"`
	Trace      []string          `json:"trace"`
	Infra      string            `json:"infra"`
	LogHash    uint64            `json:"loghash"`
	TapeHash   uint64            `json:"tapehash"`
	Nontrivial bool              `json:"nontrivial"`
	CaseKey    uint64            `json:"casekey"`
	Faults     map[string]int    `json:"faults"`
	Probes     map[string]int    `json:"probes"`
	Extra      map[string]uint64 `json:"extra"`
	Steps      int64             `json:"steps"`
	Evals      int               `json:"evals"`
}

func mkOneOut(src *tape.Source, res *core.Result) *oneOut {
	return &oneOut{res.Violations, append([]uint32(nil), src.Rec...), res.Trace, res.Infra, res.LogHash, src.Hash(),
		res.Nontrivial, res.CaseKey, res.Faults, res.Probes, res.Extra, res.Steps, res.Evals}
}

func (o *oneOut) result() *core.Result {
	r := core.NewResult()
	r.Violations, r.Trace, r.Infra, r.LogHash, r.Nontrivial, r.CaseKey, r.Steps, r.Evals = o.Violations, o.Trace, o.Infra, o.LogHash, o.Nontrivial, o.CaseKey, o.Steps, o.Evals
	for k, v := range o.Faults {
		r.Faults[k] = v
	}
	for k, v := range o.Probes {
		r.Probes[k] = v
	}
	for k, v := range o.Extra {
		r.Extra[k] = v
	}
	if r.Evals == 0 {
		r.Evals = 1
	}
	return r
}

func one() {
	p := getProp()
	var src *tape.Source
	if *liveSeed != 0 {
		var pre []uint32
		if b, err := os.ReadFile(*tapeF); err == nil {
			json.Unmarshal(b, &pre)
		}
		src = tape.LivePrefix(*liveSeed, pre)
	} else {
		var t []uint32
		b, err := os.ReadFile(*tapeF)
		if err != nil {
			die(2, "%v", err)
		}
		if err := json.Unmarshal(b, &t); err != nil {
			die(2, "%v", err)
		}
		src = tape.Replay(t)
	}
	res := safeRun(p, src, true)
	jb, _ := json.Marshal(mkOneOut(src, res))
	if *outF != "" {
		os.WriteFile(*outF, jb, 0o644)
	} else {
		os.Stdout.Write(jb)
	}
}

// evalTape evaluates a tape either in-process or (race builds: the detector
// reports each race once per process) in a fresh process.
func evalTape(p core.Property, t []uint32, fresh bool, trace bool) (*oneOut, error) {
	if !fresh {
		src := tape.Replay(t)
		res := safeRun(p, src, trace)
		return mkOneOut(src, res), nil
	}
	return evalProc(t, 0, false, trace)
}

// evalProc evaluates one run in a fresh child process: a tape replay, or (live
// != 0) a live run from a seed; cold = no warm-up in the child.
func evalProc(t []uint32, live uint64, cold bool, trace bool) (*oneOut, error) {
	dir, err := os.MkdirTemp(*scratch, "one")
	if err != nil {
		return nil, err
	}
	defer os.RemoveAll(dir)
	tb, _ := json.Marshal(t)
	tf := filepath.Join(dir, "tape.json")
	of := filepath.Join(dir, "out.json")
	os.WriteFile(tf, tb, 0o644)
	args := []string{"-role", "one", "-prop", *propID, "-tier", *tier, "-tape", tf, "-out", of,
		"-repo", *repoD, "-orig", *origD, "-scratch", dir, "-verif", *verifD}
	if live != 0 {
		args = append(args, "-liveseed", fmt.Sprint(live))
	}
	if cold {
		args = append(args, "-cold")
	}
	cmd := exec.Command(os.Args[0], childArgs(args...)...)
	cmd.Env = append(os.Environ(), "GORACE=halt_on_error=0 exitcode=0 suppress_equal_stacks=0 suppress_equal_addresses=0 log_path="+filepath.Join(dir, "race"))
	cmd.Stderr = nil
	if err := runTimeout(cmd, 120*time.Second); err != nil {
		return nil, err
	}
	b, err := os.ReadFile(of)
	if err != nil {
		return nil, err
	}
	var o oneOut
	if err := json.Unmarshal(b, &o); err != nil {
		return nil, err
	}
	return &o, nil
}

func runTimeout(cmd *exec.Cmd, d time.Duration) error {
	if err := cmd.Start(); err != nil {
		return err
	}
	done := make(chan error, 1)
	go func() { done <- cmd.Wait() }()
	select {
	case err := <-done:
		return err
	case <-time.After(d):
		cmd.Process.Kill()
		<-done
		return fmt.Errorf("timeout after %v", d)
	}
}

func has(vs []core.Violation, oracle, sig string) bool {
	for _, v := range vs {
		if v.Oracle == oracle && v.Sig == sig {
			return true
		}
	}
	return false
}

// ---------------------------------------------------------------- driver

func driver() {
	start := time.Now()
	p := getProp()
	n := p.Runs(*tier)
	if *runsF > 0 {
		n = *runsF
	}
	W := *workers
	if W > n {
		W = n
	}
	capSec := *maxSec
	if capSec == 0 {
		capSec = 170
		if *tier == "thorough" {
			capSec = 2400
		}
	}
	fmt.Printf("[%s] tier=%s seed=%d runs=%d workers=%d race=%v\n", *propID, *tier, *seed, n, W, report.RaceBuild)
	outs := make([]string, W)
	cmds := make([]*exec.Cmd, W)
	for w := 0; w < W; w++ {
		outs[w] = filepath.Join(*scratch, fmt.Sprintf("worker.%d.json", w))
		args := []string{"-role", "worker", "-prop", *propID, "-tier", *tier, "-seed", fmt.Sprint(*seed),
			"-workers", fmt.Sprint(W), "-w", fmt.Sprint(w), "-runs", fmt.Sprint(n), "-maxsec", fmt.Sprint(capSec),
			"-out", outs[w], "-repo", *repoD, "-orig", *origD, "-scratch", *scratch, "-verif", *verifD}
		if cr, ok := p.(interface{ ColdRuns(tier string) int }); ok {
			args = append(args, "-coldruns", fmt.Sprint(cr.ColdRuns(*tier)))
		}
		c := exec.Command(os.Args[0], childArgs(args...)...)
		c.Env = append(os.Environ(), "GORACE=halt_on_error=0 exitcode=0 suppress_equal_stacks=0 suppress_equal_addresses=0 log_path="+filepath.Join(*scratch, fmt.Sprintf("race.%d", w)), "GOMAXPROCS=2")
		ef, _ := os.Create(filepath.Join(*scratch, fmt.Sprintf("worker.%d.stderr", w)))
		c.Stderr = ef
		c.Stdout = ef
		if err := c.Start(); err != nil {
			die(2, "start worker: %v", err)
		}
		cmds[w] = c
	}
	infra := []string{}
	deadline := time.Now().Add(time.Duration(capSec+300) * time.Second)
	for w, c := range cmds {
		done := make(chan error, 1)
		go func() { done <- c.Wait() }()
		select {
		case err := <-done:
			if err != nil {
				b, _ := os.ReadFile(filepath.Join(*scratch, fmt.Sprintf("worker.%d.stderr", w)))
				infra = append(infra, fmt.Sprintf("worker %d: %v: %s", w, err, tail(string(b), 1500)))
			}
		case <-time.After(time.Until(deadline)):
			c.Process.Kill()
			<-done
			infra = append(infra, fmt.Sprintf("worker %d: watchdog", w))
		}
	}
	agg := report.NewWorkerOut(*propID)
	for w := range outs {
		o, err := report.ReadWorkerOut(outs[w])
		if err != nil {
			infra = append(infra, fmt.Sprintf("worker %d output: %v", w, err))
			continue
		}
		agg.Merge(o)
	}
	infra = append(infra, agg.Infra...)

	known, kerr := report.LoadKnown(filepath.Join(*verifD, "known_findings.json"))
	if kerr != nil {
		infra = append(infra, "known_findings.json: "+kerr.Error())
	}
	// classify violations
	keys := make([]string, 0, len(agg.Viol))
	for k := range agg.Viol {
		keys = append(keys, k)
	}
	sort.Strings(keys)
	unlisted := 0
	replayDir := filepath.Join(*verifD, "replays", *propID)
	if *replayD != "" {
		replayDir = filepath.Join(*replayD, *propID)
	}
	for _, k := range keys {
		rec := agg.Viol[k]
		if kf := known.Match(*propID, rec.V.Oracle, rec.V.Sig); kf != nil {
			fmt.Printf("KNOWN-FINDING: property=%s oracle=%s signature=%q runs=%d first_run=%d :: %s\n", *propID, rec.V.Oracle, rec.V.Sig, rec.Count, rec.Run, kf.Description)
			continue
		}
		unlisted++
		if unlisted > 24 {
			fmt.Printf("VIOLATION property=%s replay=(not minimised: more than 24 distinct signatures) oracle=%s signature=%q\n    %s\n", *propID, rec.V.Oracle, rec.V.Sig, oneLine(rec.V.Msg, 400))
			continue
		}
		// minimise
		// shrinking evaluates in-process (the race detector is told not to suppress
		// repeated reports); the minimised tape is then verified in a fresh process
		fresh := report.RaceBuild
		orig := rec.Tape
		min, evals := orig, 0
		budget, dur := 400, 40*time.Second
		if sb, ok := p.(interface {
			ShrinkBudget() (int, time.Duration)
		}); ok {
			budget, dur = sb.ShrinkBudget()
		}
		if rec.Cold {
			budget, dur = 60, 60*time.Second
		}
		needFresh := rec.Cold || rec.V.Oracle == "progress" // a deadlocked run poisons its process
		if needFresh && !rec.Cold {
			budget, dur = 40, 60*time.Second
		}
		evalC := func(c []uint32, tr bool) (*oneOut, error) {
			if needFresh {
				return evalProc(c, 0, rec.Cold, tr)
			}
			return evalTape(p, c, false, tr)
		}
		min, evals = tape.Shrink(orig, nil, func(c []uint32) (bool, []uint32) {
			o, err := evalC(c, false)
			if err != nil || o.Infra != "" {
				return false, nil
			}
			return has(o.Violations, rec.V.Oracle, rec.V.Sig), o.Used
		}, budget, dur)
		// final decoded trace from the minimised tape; fall back to the original when the
		// minimised one does not reproduce (flaky shrink) – the original always is a replay.
		evalF := func(c []uint32) (*oneOut, error) {
			if needFresh {
				return evalProc(c, 0, rec.Cold, true)
			}
			return evalTape(p, c, fresh, true)
		}
		fin, err := evalF(min)
		if err != nil || !has(fin.Violations, rec.V.Oracle, rec.V.Sig) {
			min = orig
			fin, err = evalF(min)
		}
		rf := report.ReplayFile{Property: *propID, Tier: *tier, Seed: *seed, Run: rec.Run, Oracle: rec.V.Oracle, Signature: rec.V.Sig,
			Message: rec.V.Msg, Tape: min, OriginalTape: orig, ShrinkEvals: evals, Toolchain: runtime.Version(), Race: report.RaceBuild, Cold: rec.Cold}
		if err == nil && fin != nil {
			rf.Trace = fin.Trace
			for _, v := range fin.Violations {
				if v.Oracle == rec.V.Oracle && v.Sig == rec.V.Sig {
					rf.Message = v.Msg
				}
			}
			rf.Reproduced = has(fin.Violations, rec.V.Oracle, rec.V.Sig)
		}
		os.MkdirAll(replayDir, 0o755)
		path := filepath.Join(replayDir, fmt.Sprintf("%d-%d-%s.json", *seed, rec.Run, report.Slug(rec.V.Oracle+"-"+rec.V.Sig)))
		if err := rf.Write(path); err != nil {
			infra = append(infra, "write replay: "+err.Error())
		}
		fmt.Printf("VIOLATION property=%s replay=%s\n    oracle=%s signature=%q failing_runs=%d tape=%d->%d draws\n    %s\n", *propID, path, rec.V.Oracle, rec.V.Sig, rec.Count, len(orig), len(min), oneLine(rf.Message, 400))
	}
	wall := time.Since(start).Seconds()
	if !*noEvid {
		ev := agg.Evidence(p, *tier, *seed, wall, unlisted, len(keys)-unlisted)
		if err := report.WriteJSON(filepath.Join(*verifD, "evidence", *propID+".json"), ev); err != nil {
			infra = append(infra, "write evidence: "+err.Error())
		}
	}
	fmt.Printf("[%s] evaluations=%d runs=%d nontrivial-distinct=%d violations(unlisted)=%d known=%d wall=%.1fs\n", *propID, agg.Evals, agg.Runs, len(agg.Keys), unlisted, len(keys)-unlisted, wall)
	for _, k := range core.SortedKeys(agg.Probes) {
		if agg.Probes[k] == 0 {
			fmt.Printf("WARNING probe %q stuck at zero\n", k)
		}
	}
	for _, s := range infra {
		fmt.Fprintf(os.Stderr, "INFRA: %s\n", oneLine(s, 2000))
	}
	if unlisted > 0 {
		// a violation found, minimised and written as a replay file stands on its
		// own, whatever else went wrong in the batch (e.g. a worker that never
		// came back because the code under test hangs on some input)
		os.Exit(1)
	}
	if len(infra) > 0 {
		os.Exit(2)
	}
	if agg.Runs == 0 {
		die(2, "no runs executed")
	}
}

func tail(s string, n int) string {
	if len(s) > n {
		return s[len(s)-n:]
	}
	return s
}

func oneLine(s string, n int) string {
	s = strings.ReplaceAll(s, "\n", "\\n")
	if len(s) > n {
		s = s[:n] + "…"
	}
	return s
}

// ---------------------------------------------------------------- replay

func replay() {
	rf, err := report.ReadReplay(*fileF)
	if err != nil {
		die(2, "%v", err)
	}
	*propID = rf.Property
	*tier = rf.Tier
	p := getProp()
	var o *oneOut
	if rf.Cold {
		o, err = evalProc(rf.Tape, 0, true, true)
	} else {
		o, err = evalTape(p, rf.Tape, report.RaceBuild, true)
	}
	if err != nil {
		die(2, "replay: %v", err)
	}
	if o.Infra != "" {
		die(2, "replay: %s", o.Infra)
	}
	for _, l := range o.Trace {
		fmt.Println("  trace:", l)
	}
	if has(o.Violations, rf.Oracle, rf.Signature) {
		for _, v := range o.Violations {
			if v.Oracle == rf.Oracle && v.Sig == rf.Signature {
				fmt.Printf("VIOLATION property=%s replay=%s\n    oracle=%s signature=%q\n    %s\n", rf.Property, *fileF, v.Oracle, v.Sig, oneLine(v.Msg, 600))
			}
		}
		os.Exit(1)
	}
	if len(o.Violations) > 0 {
		fmt.Printf("replay did not reproduce oracle=%s signature=%q; it reported instead:\n", rf.Oracle, rf.Signature)
		for _, v := range o.Violations {
			fmt.Printf("    oracle=%s signature=%q %s\n", v.Oracle, v.Sig, oneLine(v.Msg, 300))
		}
		os.Exit(3)
	}
	fmt.Printf("replay of %s: no violation on this tree (oracle=%s signature=%q did not fire)\n", *fileF, rf.Oracle, rf.Signature)
}
