// Package sched is the cooperative, seeded scheduler. Tasks are real
// goroutines but exactly one runs at a time: a task runs until its next
// synchronisation operation (announced by the shims through simhook.Yield),
// where the scheduler – driven by the tape – may hand control to another task.
//
// The hand-off uses unbuffered channels inside runtime.RaceDisable/RaceEnable
// and all scheduler state is touched only from //go:norace functions, so the
// race detector sees the library's own happens-before edges and none of the
// simulator's: two accesses the library does not order are reported as a race
// although the simulator physically serialised them.
package sched

import (
	"fmt"
	"runtime/debug"

	"verif/sim/tape"
	"verifshim/simhook"
)

type Policy int

const (
	Serial   Policy = iota // run to completion; next task chosen at task end only
	Bounded                // ≤3 preemptions at pre-chosen step indices
	WalkSlow               // switch with probability 1/8 at every yield
	WalkFast               // switch with probability 1/3 at every yield
	AfterPut               // switch (probability 1/2) right after an object went into a pool, otherwise like WalkSlow
)

func (p Policy) String() string {
	return [...]string{"serial", "bounded-preemption", "random-walk-1/8", "random-walk-1/3", "switch-after-pool-put"}[p]
}

type Task struct {
	ID        int
	Fn        func()
	resume    chan struct{}
	visDone   chan struct{}
	done      bool
	blockedOn uintptr
	Panic     string
	Steps     int
}

type Sched struct {
	S        *tape.Source
	Policy   Policy
	Tasks    []*Task
	MaxSteps int
	// EstSteps is the expected number of yields of the whole run (from the
	// sequential execution); used to place bounded preemptions.
	EstSteps int

	cur       *Task
	steps     int
	preemptAt []int
	finished  chan struct{}

	Deadlock    bool
	Capped      bool
	Switches    int
	Preemptions int
	SchedHash   uint64
	objKeys     []uintptr // open-addressing table (no Go maps on task goroutines: the runtime instruments them even in norace code)
	objVals     []int
	objHash     []uint64
	WantTrace   bool
	rawTrace    []uint32 // (task, kind, obj) triples, preallocated
	nTrace      int
}

func New(src *tape.Source, pol Policy, est int) *Sched {
	return &Sched{S: src, Policy: pol, EstSteps: est, MaxSteps: 200000, finished: make(chan struct{}, 1),
		objKeys: make([]uintptr, 4096), objVals: make([]int, 4096), objHash: make([]uint64, 0, 2048),
		rawTrace: make([]uint32, 3*600), SchedHash: 1469598103934665603}
}

// PickPolicy draws a policy: 0 = serial (simplest).
func PickPolicy(src *tape.Source) Policy {
	switch v := src.Intn(10, "sched.policy"); {
	case v == 0:
		return Serial
	case v <= 4:
		return Bounded
	case v <= 6:
		return WalkSlow
	case v <= 8:
		return WalkFast
	default:
		return AfterPut
	}
}

func (s *Sched) Go(fn func()) *Task {
	t := &Task{ID: len(s.Tasks), Fn: fn, resume: make(chan struct{}), visDone: make(chan struct{})}
	s.Tasks = append(s.Tasks, t)
	return t
}

//go:norace
func (s *Sched) runnable(except *Task) []*Task {
	r := make([]*Task, len(s.Tasks))
	n := 0
	for _, t := range s.Tasks {
		if !t.done && t.blockedOn == 0 && t != except {
			r[n] = t
			n++
		}
	}
	return r[:n]
}

//go:norace
func (s *Sched) log(t *Task, k simhook.Kind, obj uintptr) {
	id := s.objLookup(obj)
	s.objHash[id] = (s.objHash[id] ^ uint64(t.ID+1)) * 1099511628211
	s.SchedHash = (s.SchedHash ^ uint64(t.ID+1) ^ uint64(k)<<8 ^ uint64(id)<<16) * 1099511628211
	if s.WantTrace && s.nTrace+3 <= len(s.rawTrace) {
		s.rawTrace[s.nTrace], s.rawTrace[s.nTrace+1], s.rawTrace[s.nTrace+2] = uint32(t.ID), uint32(k), uint32(id)
		s.nTrace += 3
	}
}

//go:norace
func (s *Sched) objLookup(obj uintptr) int {
	if obj == 0 {
		obj = 1
	}
	if len(s.objHash)*2 >= len(s.objKeys) {
		ok, ov := s.objKeys, s.objVals
		s.objKeys, s.objVals = make([]uintptr, len(ok)*2), make([]int, len(ok)*2)
		for i, k := range ok {
			if k != 0 {
				j := int((uint64(k)*0x9E3779B97F4A7C15)>>20) & (len(s.objKeys) - 1)
				for s.objKeys[j] != 0 {
					j = (j + 1) & (len(s.objKeys) - 1)
				}
				s.objKeys[j], s.objVals[j] = k, ov[i]
			}
		}
	}
	j := int((uint64(obj)*0x9E3779B97F4A7C15)>>20) & (len(s.objKeys) - 1)
	for s.objKeys[j] != 0 {
		if s.objKeys[j] == obj {
			return s.objVals[j]
		}
		j = (j + 1) & (len(s.objKeys) - 1)
	}
	id := len(s.objHash)
	s.objKeys[j], s.objVals[j] = obj, id
	if id == cap(s.objHash) {
		grown := make([]uint64, id, 2*id+64)
		for i := 0; i < id; i++ {
			grown[i] = s.objHash[i]
		}
		s.objHash = grown
	}
	s.objHash = s.objHash[:id+1]
	s.objHash[id] = 1469598103934665603
	return id
}

// ConflictHash identifies the schedule up to commuting independent steps: for
// each sync object (in first-touch order) the sequence of task ids that
// operated on it.
//
//go:norace
func (s *Sched) ConflictHash() uint64 {
	h := uint64(1469598103934665603)
	for _, x := range s.objHash {
		h = (h ^ x) * 1099511628211
	}
	return h
}

//go:norace
func (s *Sched) yield(k simhook.Kind, obj uintptr) {
	t := s.cur
	s.steps++
	t.Steps++
	s.log(t, k, obj)
	if s.steps > s.MaxSteps {
		s.Capped = true
		return
	}
	var sw bool
	switch s.Policy {
	case Serial:
		return
	case Bounded:
		for _, at := range s.preemptAt {
			if at == s.steps {
				sw = true
			}
		}
	case WalkSlow:
		sw = s.S.Intn(8, "sched.switch") == 7
	case WalkFast:
		sw = s.S.Intn(3, "sched.switch") == 2
	case AfterPut:
		// the classic use-after-put window: the putter still works on what another
		// task may now take out of the pool
		if k == simhook.KPoolPutDone {
			sw = s.S.Intn(2, "sched.switch") == 1
		} else {
			sw = s.S.Intn(8, "sched.switch") == 7
		}
	}
	if !sw {
		return
	}
	others := s.runnable(t)
	if len(others) == 0 {
		return
	}
	next := others[s.S.Intn(len(others), "sched.next")]
	s.Preemptions++
	s.switchTo(t, next)
}

//go:norace
func (s *Sched) switchTo(from, to *Task) {
	s.Switches++
	s.cur = to
	simhook.RaceDisable()
	to.resume <- struct{}{}
	<-from.resume
	simhook.RaceEnable()
}

//go:norace
func (s *Sched) block(obj uintptr) {
	t := s.cur
	t.blockedOn = obj
	others := s.runnable(t)
	if len(others) == 0 {
		s.Deadlock = true
		simhook.RaceDisable()
		s.finished <- struct{}{}
		select {} // park forever; the run is over
	}
	next := others[s.S.Intn(len(others), "sched.next")]
	s.switchTo(t, next)
}

//go:norace
func (s *Sched) wake(obj uintptr) {
	for _, t := range s.Tasks {
		if t.blockedOn == obj {
			t.blockedOn = 0
		}
	}
}

//go:norace
func (s *Sched) finish(t *Task) {
	t.done = true
	others := s.runnable(t)
	if len(others) > 0 {
		next := others[s.S.Intn(len(others), "sched.next")]
		s.Switches++
		s.cur = next
		simhook.RaceDisable()
		next.resume <- struct{}{}
		simhook.RaceEnable()
		return
	}
	for _, o := range s.Tasks {
		if !o.done {
			s.Deadlock = true
		}
	}
	simhook.RaceDisable()
	s.finished <- struct{}{}
	simhook.RaceEnable()
}

func (s *Sched) taskMain(t *Task) {
	waitResume(t)
	func() {
		defer func() {
			if r := recover(); r != nil {
				t.Panic = fmt.Sprintf("%v\n%s", r, debug.Stack())
			}
		}()
		t.Fn()
	}()
	close(t.visDone) // visible edge: task → controller
	s.finish(t)
}

//go:norace
func waitResume(t *Task) {
	simhook.RaceDisable()
	<-t.resume
	simhook.RaceEnable()
}

// Run executes all tasks to completion under the policy. Hooks are installed
// for the duration of the run only.
//
//go:norace
func (s *Sched) Run() {
	if len(s.Tasks) == 0 {
		return
	}
	if s.Policy == Bounded {
		s.preemptAt = nil
		est := s.EstSteps
		if est < 4 {
			est = 4
		}
		k := 1 + s.S.Intn(3, "sched.k")
		for i := 0; i < k; i++ {
			s.preemptAt = append(s.preemptAt, 1+s.S.Intn(est, "sched.at")) // controller goroutine, before tasks start
		}
	}
	for _, t := range s.Tasks {
		go s.taskMain(t)
	}
	first := s.Tasks[s.S.Intn(len(s.Tasks), "sched.first")]
	simhook.Yield = s.yield
	simhook.Block = s.block
	simhook.Wake = s.wake
	s.cur = first
	simhook.RaceDisable()
	first.resume <- struct{}{}
	<-s.finished
	simhook.RaceEnable()
	simhook.Yield = nil
	simhook.Block = nil
	simhook.Wake = nil
	if !s.Deadlock {
		for _, t := range s.Tasks {
			<-t.visDone
		}
	}
}

// Trace renders the recorded schedule as task@op#object items.
func (s *Sched) Trace() []string {
	var out []string
	for i := 0; i+3 <= s.nTrace; i += 3 {
		out = append(out, fmt.Sprintf("t%d@%s#%d", s.rawTrace[i], simhook.Kind(s.rawTrace[i+1]), s.rawTrace[i+2]))
	}
	return out
}

// Steps is the number of yields of the run.
//
//go:norace
func (s *Sched) Steps() int { return s.steps }

// CountYields runs fn with a counting Yield hook (no scheduling) and returns
// the number of synchronisation operations it performed.
//
//go:norace
func CountYields(fn func()) int {
	yieldCount = 0
	simhook.Yield = countYield
	simhook.Block = blockPanic
	simhook.Wake = wakeNop
	fn()
	simhook.Yield, simhook.Block, simhook.Wake = nil, nil, nil
	return yieldCount
}

var yieldCount int

//go:norace
func countYield(simhook.Kind, uintptr) { yieldCount++ }

//go:norace
func blockPanic(uintptr) { panic("sched: Block during sequential execution") }

//go:norace
func wakeNop(uintptr) {}
