// Package racelog reads the Go race detector's reports as they appear in the
// process's GORACE log_path file, attributes the new ones to the run that just
// finished, and normalises each to the unordered pair of top library frames.
package racelog

import (
	"fmt"
	"os"
	"regexp"
	"sort"
	"strings"
)

type Class int

const (
	Library Class = iota // both accesses have a frame in the library
	Mixed                // one side only in harness code (a caller-held value), the other in the library
	Harness              // a simulator frame on either side
	Callers              // both sides are caller code (workload holding values): two holders were handed the same memory
)

type Report struct {
	Sig   string
	Class Class
	Text  string
}

type Log struct {
	path string
	off  int64
}

// Open locates this process's race log from GORACE (log_path=<p> → <p>.<pid>).
func Open() *Log {
	l := &Log{}
	for _, f := range strings.Fields(os.Getenv("GORACE")) {
		if strings.HasPrefix(f, "log_path=") {
			l.path = fmt.Sprintf("%s.%d", strings.TrimPrefix(f, "log_path="), os.Getpid())
		}
	}
	return l
}

// Mark skips everything reported so far.
func (l *Log) Mark() {
	if l.path == "" {
		return
	}
	if st, err := os.Stat(l.path); err == nil {
		l.off = st.Size()
	}
}

var frameRe = regexp.MustCompile(`^\s+(\S+):(\d+) \+0x`)

// New returns the reports written since the last Mark/New.
func (l *Log) New() []Report {
	if l.path == "" {
		return nil
	}
	st, err := os.Stat(l.path)
	if err != nil || st.Size() <= l.off {
		return nil
	}
	f, err := os.Open(l.path)
	if err != nil {
		return nil
	}
	defer f.Close()
	buf := make([]byte, st.Size()-l.off)
	f.ReadAt(buf, l.off)
	l.off = st.Size()
	var out []Report
	for _, blk := range strings.Split(string(buf), "==================") {
		if !strings.Contains(blk, "WARNING: DATA RACE") {
			continue
		}
		out = append(out, parse(blk))
	}
	return out
}

type frameClass int

const (
	fLib frameClass = iota
	fCaller
	fSim
	fNone
)

func classify(file string) (frameClass, string) {
	switch {
	case strings.Contains(file, "/go1.") && strings.Contains(file, "/src/"), strings.Contains(file, "/go/src/"):
		return fNone, "" // toolchain: look further down
	case strings.Contains(file, "/repo/pkg/") || strings.Contains(file, "/repo/cmd/"):
		i := strings.Index(file, "/repo/")
		return fLib, file[i+len("/repo/"):]
	case strings.Contains(file, "/harness/sim/canon/"):
		return fCaller, file // the canonicaliser reads caller-held values: that is caller behaviour
	case strings.Contains(file, "/shim/sim") || strings.Contains(file, "/harness/sim/"):
		return fSim, file
	case strings.Contains(file, "/harness/"):
		return fCaller, file
	}
	return fNone, ""
}

func parse(blk string) Report {
	// sections: access 1, "Previous …" access 2, then goroutine creation stacks.
	// Each side is classified by its top-most frame outside the toolchain: the
	// library, a caller (workload code holding values), or the simulator itself.
	lines := strings.Split(blk, "\n")
	var cls [2]frameClass
	var top [2]string
	var seen [2]bool
	side := -1
	for _, ln := range lines {
		t := strings.TrimSpace(ln)
		switch {
		case strings.HasPrefix(t, "Read at ") || strings.HasPrefix(t, "Write at ") || strings.HasPrefix(t, "Atomic read at") || strings.HasPrefix(t, "Atomic write at"):
			side = 0
		case strings.HasPrefix(t, "Previous "):
			side = 1
		case strings.HasPrefix(t, "Goroutine "):
			side = -1
		}
		if side >= 0 && !seen[side] {
			if m := frameRe.FindStringSubmatch(ln); m != nil {
				c, f := classify(m[1])
				if c != fNone {
					seen[side] = true
					cls[side] = c
					top[side] = f + ":" + m[2]
				}
			}
		}
	}
	rep := Report{Text: strings.TrimSpace(blk)}
	if len(rep.Text) > 3000 {
		rep.Text = rep.Text[:3000] + "…"
	}
	lib := 0
	var tops []string
	for i := 0; i < 2; i++ {
		if seen[i] && cls[i] == fLib {
			lib++
			tops = append(tops, top[i])
		}
	}
	sim := (seen[0] && cls[0] == fSim) || (seen[1] && cls[1] == fSim)
	switch {
	case !sim && lib == 0 && seen[0] && seen[1] && cls[0] == fCaller && cls[1] == fCaller:
		// workload tasks never share objects on purpose: if two of them race on the
		// same memory, the library handed one object to two holders
		rep.Class = Callers
		tops = []string{"two-holders-share-one-object"}
	case sim || lib == 0:
		rep.Class = Harness
	case lib == 2:
		rep.Class = Library
	default:
		rep.Class = Mixed
		tops = append(tops, "caller-held-value")
	}
	sort.Strings(tops)
	rep.Sig = strings.Join(tops, " <-> ")
	return rep
}
