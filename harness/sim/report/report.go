// Package report aggregates worker results, matches known findings, writes
// replay files and the evidence file.
package report

import (
	"encoding/json"
	"fmt"
	"os"
	"regexp"
	"sort"
	"strings"

	"verif/sim/core"
	"verif/sim/tape"
)

type VRec struct {
	V     core.Violation `json:"v"`
	Run   int            `json:"run"`   // lowest failing run index
	Tape  []uint32       `json:"tape"`  // its tape
	Count int            `json:"count"` // failing runs with this signature
	Cold  bool           `json:"cold"`  // found by a cold-start run (fresh process, no warm-up): replay the same way
}

type Sample struct {
	Run   int      `json:"run"`
	Trace []string `json:"trace"`
}

type WorkerOut struct {
	Prop      string                     `json:"prop"`
	Runs      int                        `json:"runs"`
	Evals     int                        `json:"evals"`
	Steps     int64                      `json:"steps"`
	SimTimeMs int64                      `json:"sim_time_ms"`
	Keys      map[uint64]bool            `json:"-"`
	KeyList   []uint64                   `json:"keys"` // distinct non-trivial case keys
	Faults    map[string]int             `json:"faults"`
	Probes    map[string]int             `json:"probes"`
	Extra     map[string]map[uint64]bool `json:"-"`
	ExtraList map[string][]uint64        `json:"extra"`
	Viol      map[string]*VRec           `json:"viol"`
	Samples   []Sample                   `json:"samples"`
	Infra     []string                   `json:"infra"`
	CappedAt  int                        `json:"capped_at"`
	WallS     float64                    `json:"wall_s"`
	LogAcc    uint64                     `json:"log_acc"` // order-independent accumulation of per-run log hashes
}

func NewWorkerOut(prop string) *WorkerOut {
	return &WorkerOut{Prop: prop, Keys: map[uint64]bool{}, Faults: map[string]int{}, Probes: map[string]int{},
		Extra: map[string]map[uint64]bool{}, Viol: map[string]*VRec{}}
}

func (o *WorkerOut) WantSample() bool { return len(o.Samples) < 3 }

func (o *WorkerOut) Add(run int, src *tape.Source, r *core.Result) {
	o.AddRaw(run, src.Rec, src.Hash(), r, false)
}

// AddRaw adds a result whose tape was recorded elsewhere (a cold-start run
// executed by a fresh child process).
func (o *WorkerOut) AddRaw(run int, tapeRec []uint32, hash uint64, r *core.Result, cold bool) {
	o.Runs++
	o.Evals += r.Evals
	o.Steps += r.Steps
	o.SimTimeMs += r.SimTimeMs
	if r.Infra != "" {
		if len(o.Infra) < 5 {
			o.Infra = append(o.Infra, fmt.Sprintf("run %d: %s", run, r.Infra))
		}
		return
	}
	if r.Nontrivial {
		k := r.CaseKey
		if k == 0 {
			k = hash
		}
		o.Keys[k] = true
	}
	for k, v := range r.Faults {
		o.Faults[k] += v
	}
	for k, v := range r.Probes {
		o.Probes[k] += v
	}
	for k, v := range r.Extra {
		if o.Extra[k] == nil {
			o.Extra[k] = map[uint64]bool{}
		}
		if len(o.Extra[k]) < 2000000 {
			o.Extra[k][v] = true
		}
	}
	o.LogAcc += (r.LogHash ^ uint64(run)*0x9E3779B97F4A7C15) * 0xBF58476D1CE4E5B9
	for _, v := range r.Violations {
		key := v.Oracle + "\x00" + v.Sig
		rec := o.Viol[key]
		if rec == nil {
			o.Viol[key] = &VRec{V: v, Run: run, Tape: append([]uint32(nil), tapeRec...), Count: 1, Cold: cold}
		} else {
			rec.Count++
		}
	}
	if r.Nontrivial && len(r.Trace) > 0 && len(o.Samples) < 3 {
		tr := r.Trace
		if len(tr) > 40 {
			tr = append(append([]string{}, tr[:40]...), fmt.Sprintf("… (%d more lines)", len(r.Trace)-40))
		}
		o.Samples = append(o.Samples, Sample{run, tr})
	}
}

func (o *WorkerOut) Write(path string) error {
	o.KeyList = o.KeyList[:0]
	for k := range o.Keys {
		o.KeyList = append(o.KeyList, k)
	}
	o.ExtraList = map[string][]uint64{}
	for k, m := range o.Extra {
		for v := range m {
			o.ExtraList[k] = append(o.ExtraList[k], v)
		}
	}
	b, err := json.Marshal(o)
	if err != nil {
		return err
	}
	return os.WriteFile(path, b, 0o644)
}

func ReadWorkerOut(path string) (*WorkerOut, error) {
	b, err := os.ReadFile(path)
	if err != nil {
		return nil, err
	}
	o := NewWorkerOut("")
	if err := json.Unmarshal(b, o); err != nil {
		return nil, err
	}
	for _, k := range o.KeyList {
		o.Keys[k] = true
	}
	for k, l := range o.ExtraList {
		o.Extra[k] = map[uint64]bool{}
		for _, v := range l {
			o.Extra[k][v] = true
		}
	}
	return o, nil
}

func (o *WorkerOut) Merge(b *WorkerOut) {
	o.Runs += b.Runs
	o.Evals += b.Evals
	o.Steps += b.Steps
	o.SimTimeMs += b.SimTimeMs
	o.LogAcc += b.LogAcc
	for k := range b.Keys {
		o.Keys[k] = true
	}
	for k, v := range b.Faults {
		o.Faults[k] += v
	}
	for k, v := range b.Probes {
		o.Probes[k] += v
	}
	for k, m := range b.Extra {
		if o.Extra[k] == nil {
			o.Extra[k] = map[uint64]bool{}
		}
		for v := range m {
			o.Extra[k][v] = true
		}
	}
	for k, r := range b.Viol {
		cur := o.Viol[k]
		if cur == nil {
			o.Viol[k] = r
		} else {
			cur.Count += r.Count
			if r.Run < cur.Run {
				cur.Run, cur.Tape, cur.V, cur.Cold = r.Run, r.Tape, r.V, r.Cold
			}
		}
	}
	o.Samples = append(o.Samples, b.Samples...)
	sort.Slice(o.Samples, func(i, j int) bool { return o.Samples[i].Run < o.Samples[j].Run })
	if len(o.Samples) > 4 {
		o.Samples = o.Samples[:4]
	}
	o.Infra = append(o.Infra, b.Infra...)
	if b.CappedAt > 0 {
		o.CappedAt = b.CappedAt
	}
	if b.WallS > o.WallS {
		o.WallS = b.WallS
	}
}

// ---------------------------------------------------------------- known findings

type Known struct {
	Property    string `json:"property"`
	Oracle      string `json:"oracle"`
	Signature   string `json:"signature"`
	Status      string `json:"status"` // known | fixed
	Commit      string `json:"commit,omitempty"`
	Description string `json:"description"`
}

type KnownSet struct{ Items []Known }

func LoadKnown(path string) (*KnownSet, error) {
	ks := &KnownSet{}
	b, err := os.ReadFile(path)
	if os.IsNotExist(err) {
		return ks, nil
	}
	if err != nil {
		return ks, err
	}
	var f struct {
		Findings []Known `json:"findings"`
	}
	if err := json.Unmarshal(b, &f); err != nil {
		return ks, err
	}
	ks.Items = f.Findings
	return ks, nil
}

// Match returns the listed known (status "known") finding with exactly this
// property, oracle and signature. "fixed" entries suppress nothing.
func (k *KnownSet) Match(prop, oracle, sig string) *Known {
	for i := range k.Items {
		it := &k.Items[i]
		if it.Status == "known" && it.Property == prop && it.Oracle == oracle && it.Signature == sig {
			return it
		}
	}
	return nil
}

// ---------------------------------------------------------------- replay files

type ReplayFile struct {
	Property     string   `json:"property"`
	Tier         string   `json:"tier"`
	Seed         int64    `json:"seed"`
	Run          int      `json:"run"`
	Oracle       string   `json:"oracle"`
	Signature    string   `json:"signature"`
	Message      string   `json:"message"`
	Tape         []uint32 `json:"tape"`
	OriginalTape []uint32 `json:"original_tape,omitempty"`
	ShrinkEvals  int      `json:"shrink_evaluations"`
	Trace        []string `json:"trace"`
	Reproduced   bool     `json:"reproduced_in_fresh_evaluation"`
	Toolchain    string   `json:"toolchain"`
	Race         bool     `json:"race_build"`
	Cold         bool     `json:"cold_start_run"`
	// Extra carries engine-specific replay data (C19: scenario + fault point).
	Extra json.RawMessage `json:"extra,omitempty"`
}

func (r *ReplayFile) Write(path string) error { return WriteJSON(path, r) }

func ReadReplay(path string) (*ReplayFile, error) {
	b, err := os.ReadFile(path)
	if err != nil {
		return nil, err
	}
	var r ReplayFile
	if err := json.Unmarshal(b, &r); err != nil {
		return nil, err
	}
	return &r, nil
}

func WriteJSON(path string, v any) error {
	b, err := json.MarshalIndent(v, "", " ")
	if err != nil {
		return err
	}
	tmp := path + ".tmp"
	if err := os.WriteFile(tmp, append(b, '\n'), 0o644); err != nil {
		return err
	}
	return os.Rename(tmp, path)
}

var slugRe = regexp.MustCompile(`[^A-Za-z0-9._-]+`)

func Slug(s string) string {
	s = slugRe.ReplaceAllString(s, "_")
	if len(s) > 80 {
		s = s[:80]
	}
	return strings.Trim(s, "_")
}

// ---------------------------------------------------------------- evidence

func (o *WorkerOut) Evidence(p core.Property, tier string, seed int64, wall float64, unlisted, known int) map[string]any {
	samples := []any{}
	for _, s := range o.Samples {
		samples = append(samples, map[string]any{"run": s.Run, "trace": s.Trace})
	}
	if len(samples) == 0 {
		samples = append(samples, "no non-trivial run recorded a trace")
	}
	cov := map[string]any{
		"evaluations":         o.Evals,
		"simulated_runs":      o.Runs,
		"distinct_nontrivial": len(o.Keys),
		"rule":                p.Rule(),
		"samples":             samples,
		"exhaustive":          false,
		"fault_kinds_fired":   o.Faults,
		"rare_branch_probes":  o.Probes,
		"simulated_steps":     o.Steps,
		"runs_per_hour":       int(float64(o.Runs) / wall * 3600),
		"seeds_per_hour":      int(float64(o.Runs) / wall * 3600),
		"components":          p.Components(),
	}
	if o.SimTimeMs > 0 {
		cov["simulated_time_s"] = float64(o.SimTimeMs) / 1000
	}
	for k, m := range o.Extra {
		cov["distinct_"+k] = len(m)
	}
	if o.CappedAt > 0 {
		cov["stopped_early_at_run"] = o.CappedAt
	}
	zero := []string{}
	for _, k := range core.SortedKeys(o.Probes) {
		if o.Probes[k] == 0 {
			zero = append(zero, k)
		}
	}
	if len(zero) > 0 {
		cov["probes_stuck_at_zero"] = zero
	}
	return map[string]any{
		"property_id":    p.ID(),
		"tier":           tier,
		"seed":           seed,
		"level":          p.Level(),
		"coverage":       cov,
		"assumptions":    p.Assumptions(),
		"wall_s":         wall,
		"violations":     unlisted,
		"known_findings": known,
	}
}
