//go:build !race

package report

const RaceBuild = false
