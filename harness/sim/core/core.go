// Package core holds the types shared by all property engines and the driver.
package core

import (
	"sort"

	"verif/sim/tape"
)

// Violation of one oracle in one run.
type Violation struct {
	Oracle string `json:"oracle"`    // which check fired
	Sig    string `json:"signature"` // minimal identifying facts (known-finding key)
	Msg    string `json:"message"`
}

// Result of one simulated run.
type Result struct {
	Violations []Violation
	Nontrivial bool              // by the property's stated rule
	CaseKey    uint64            // identifies the case for distinctness (tape hash unless overridden)
	Faults     map[string]int    // fault kinds that actually fired
	Probes     map[string]int    // rare-branch probes hit
	Steps      int64             // simulated steps (or fake-clock ms)
	SimTimeMs  int64             // simulated time covered, where a clock exists
	Trace      []string          // decoded, human-readable (when requested)
	LogHash    uint64            // hash of the event log: must be a pure function of the tape
	Extra      map[string]uint64 // e.g. schedule hash, conflict signature hash
	Evals      int               // executions inside this run (≥1)
	Infra      string            // non-empty = infrastructure problem (exit 2), never a violation
	// Poisoned: the run left the process unusable (simulated tasks are parked
	// forever holding real locks after a deadlock): the worker must stop, and the
	// tape must be re-evaluated in fresh processes only.
	Poisoned bool
}

func NewResult() *Result {
	return &Result{Faults: map[string]int{}, Probes: map[string]int{}, Extra: map[string]uint64{}, Evals: 1}
}

func (r *Result) Fail(oracle, sig, msg string) {
	for _, v := range r.Violations {
		if v.Oracle == oracle && v.Sig == sig {
			return
		}
	}
	r.Violations = append(r.Violations, Violation{oracle, sig, msg})
}

func (r *Result) Tracef(want bool, s string) {
	if want {
		r.Trace = append(r.Trace, s)
	}
}

// Env is what a worker hands to a property.
type Env struct {
	Tier     string // quick | thorough
	RepoDir  string // the instrumented scratch copy (for reading sources)
	OrigRepo string // /repo
	Scratch  string
	Race     bool
	// Cold: this process executes exactly one simulated run and must not warm up
	// lazily initialised library state first (cold-start stratum).
	Cold bool
}

// Property is one engine.
type Property interface {
	ID() string
	Level() string // exploration | fault_enumeration
	Rule() string
	// Runs is the number of runs of a batch for the tier.
	Runs(tier string) int
	Init(env *Env) error
	// Run executes one simulated run driven by src.
	Run(src *tape.Source, trace bool) *Result
	// Assumptions and Components for the evidence file.
	Assumptions() []string
	Components() map[string]string
}

// SortedKeys of a map.
func SortedKeys[V any](m map[string]V) []string {
	ks := make([]string, 0, len(m))
	for k := range m {
		ks = append(ks, k)
	}
	sort.Strings(ks)
	return ks
}
