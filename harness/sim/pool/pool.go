// Package pool drives the simulated sync.Pool: every legal-but-rare behaviour
// of a real pool (miss although items exist, any resident item, dropped Put,
// purge) is an injected fault decided from the tape.
package pool

import (
	"strings"

	"verif/sim/tape"
	"verifshim/simhook"
)

// Mode of a run (swarm knob).
type Mode int

const (
	Mixed      Mode = iota // per-operation choice from the tape
	AlwaysMiss             // fault-free baseline: no pooled state can carry over
	HitNewest              // maximises carry-over
	HitOldest
)

func (m Mode) String() string {
	return [...]string{"mixed", "always-miss", "hit-newest", "hit-oldest"}[m]
}

type Ctl struct {
	S    *tape.Source
	Mode Mode
	// Fired counts per fault kind.
	Miss, HitNew, HitOld, HitRand, Drop, Keep, Purge, EmptyGet int
	// OnGet, if set, observes every decision (pool id, n resident, chosen index).
	OnGet func(p *simhook.PoolInfo, n, idx int)
	// Only, if set, restricts the controller to the pools it accepts; all other
	// pools always miss (and keep their Puts).
	Only func(p *simhook.PoolInfo) bool
}

//go:norace
func (c *Ctl) get(p *simhook.PoolInfo, n int) int {
	var idx int
	if c.Only != nil && !c.Only(p) {
		idx = -1
	} else {
		idx = c.decide(n)
	}
	if c.OnGet != nil {
		c.OnGet(p, n, idx)
	}
	return idx
}

//go:norace
func (c *Ctl) decide(n int) int {
	if n == 0 {
		c.EmptyGet++
		return -1
	}
	switch c.Mode {
	case AlwaysMiss:
		c.Miss++
		return -1
	case HitNewest:
		c.HitNew++
		return n - 1
	case HitOldest:
		c.HitOld++
		return 0
	}
	switch c.S.Intn(8, "pool.get") {
	case 0:
		c.Miss++
		return -1
	case 1, 2, 3, 4:
		c.HitNew++
		return n - 1
	case 5:
		c.HitOld++
		return 0
	default:
		c.HitRand++
		return c.S.Intn(n, "pool.which")
	}
}

//go:norace
func (c *Ctl) put(p *simhook.PoolInfo) bool {
	if c.Mode == Mixed && c.S.Intn(8, "pool.put") == 7 {
		c.Drop++
		return false
	}
	c.Keep++
	return true
}

// Install activates the controller; Uninstall restores the plain LIFO pool.
//
//go:norace
func (c *Ctl) Install() {
	simhook.PoolGet = c.get
	simhook.PoolPut = c.put
}

//go:norace
func Uninstall() {
	simhook.PoolGet = nil
	simhook.PoolPut = nil
}

// PurgeAll empties every pool (a GC cycle).
//
//go:norace
func (c *Ctl) PurgeAll() {
	c.Purge++
	simhook.PurgeAll()
}

// Counts adds the fired counters into m.
func (c *Ctl) Counts(m map[string]int) {
	m["pool.miss"] += c.Miss
	m["pool.hit-newest"] += c.HitNew
	m["pool.hit-oldest"] += c.HitOld
	m["pool.hit-random"] += c.HitRand
	m["pool.drop"] += c.Drop
	m["pool.purge"] += c.Purge
}

// DupSites returns the sites of the pools that currently hold the same object
// more than once (a double Put: two later users would share it), and empties
// those pools.
func DupSites() []string {
	var out []string
	for _, pi := range simhook.Pools() {
		if pi.Dup != nil && pi.Dup() {
			s := pi.Site
			if i := strings.LastIndex(s, " "); i >= 0 {
				s = s[i+1:]
			}
			out = append(out, s)
			pi.Purge()
		}
	}
	return out
}
