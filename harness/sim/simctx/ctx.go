// Package simctx provides a context whose cancellation instant is owned by the
// simulator: it turns done at the k-th poll of Err() (k = 0: already done).
package simctx

import (
	"context"
	"errors"
	"runtime"
	"time"
)

type Ctx struct {
	FireAt    int   // poll index from which Err() is non-nil; <0 = never
	E         error // context.Canceled or context.DeadlineExceeded
	Polls     int   // total Err() calls
	After     int   // Err() calls after the first non-nil answer
	fired     bool
	done      chan struct{}
	DoneCalls int
	// cause-carrying flavour (context.WithCancelCause): inner is cancelled
	// synchronously, with an application error as cause, at the firing poll;
	// context.Cause(c) then returns that cause while Err() is context.Canceled
	inner  context.Context
	cancel context.CancelCauseFunc
	// RecordSites: remember the code site (caller's program counters) of every
	// poll, so that an enumeration that has to sample still covers every poll
	// SITE of the library at its first and last occurrences.
	RecordSites bool
	Sites       []uintptr // parallel to poll index
}

// ErrAppCause is the cause recorded by the cause-carrying flavour.
var ErrAppCause = errors.New("application shutting down")

// NewWithCause is New(fireAt, context.Canceled) for a context created by
// context.WithCancelCause and cancelled with an application error.
func NewWithCause(fireAt int) *Ctx {
	c := New(fireAt, context.Canceled)
	c.inner, c.cancel = context.WithCancelCause(context.Background())
	return c
}

func New(fireAt int, e error) *Ctx { return &Ctx{FireAt: fireAt, E: e, done: make(chan struct{})} }

func Never() *Ctx { return New(-1, nil) }

func (c *Ctx) Deadline() (time.Time, bool) {
	if c.E == context.DeadlineExceeded {
		return time.Unix(0, 0), true
	}
	return time.Time{}, false
}

func (c *Ctx) fire() {
	if !c.fired {
		c.fired = true
		close(c.done)
		if c.cancel != nil {
			c.cancel(ErrAppCause)
		}
	}
}

func (c *Ctx) Done() <-chan struct{} {
	c.DoneCalls++
	if c.FireAt == 0 {
		c.fire()
	}
	return c.done
}

func (c *Ctx) Err() error {
	i := c.Polls
	c.Polls++
	if c.RecordSites {
		var pcs [2]uintptr
		n := runtime.Callers(2, pcs[:])
		var h uintptr = 1469598103934665603 & ^uintptr(0)
		for _, pc := range pcs[:n] {
			h = (h ^ pc) * 1099511628211
		}
		c.Sites = append(c.Sites, h)
	}
	if c.FireAt >= 0 && i >= c.FireAt {
		if c.fired && i > c.FireAt {
			c.After++
		}
		c.fire()
		return c.E
	}
	return nil
}

func (c *Ctx) Value(key any) any {
	if c.inner != nil {
		return c.inner.Value(key) // lets context.Cause find the cancelCtx that carries the cause
	}
	return nil
}

// Fired reports whether the library observed the cancellation.
func (c *Ctx) Fired() bool { return c.fired }
