// Package canon reduces any observable value to a canonical string: pointer
// identity and slice capacity are ignored, nil and empty slices/maps are equal,
// maps are sorted, cycles are cut, errors are rendered as (message, code,
// location, unwrap chain types). Equality of observables always means equality
// of canonical strings.
package canon

import (
	"errors"
	"fmt"
	"reflect"
	"sort"
	"strconv"
	"strings"
)

type walker struct {
	sb    strings.Builder
	seen  map[uintptr]bool
	depth int
}

// Of returns the canonical string of v.
func Of(v any) string {
	w := &walker{seen: map[uintptr]bool{}}
	w.walk(reflect.ValueOf(v))
	return w.sb.String()
}

// OfValue is Of for a reflect.Value (works for unexported fields too).
func OfValue(v reflect.Value) string {
	w := &walker{seen: map[uintptr]bool{}}
	w.walk(v)
	return w.sb.String()
}

// Err returns the canonical string of an error: message plus the types along
// the Unwrap chain plus, when present, Code and Location fields.
func Err(err error) string {
	if err == nil {
		return "<nil>"
	}
	var sb strings.Builder
	sb.WriteString("err{")
	sb.WriteString(strconv.Quote(err.Error()))
	for e := err; e != nil; e = errors.Unwrap(e) {
		sb.WriteString(" |")
		sb.WriteString(reflect.TypeOf(e).String())
		rv := reflect.ValueOf(e)
		for rv.Kind() == reflect.Ptr && !rv.IsNil() {
			rv = rv.Elem()
		}
		if rv.Kind() == reflect.Struct {
			if f := rv.FieldByName("Code"); f.IsValid() {
				sb.WriteString(" code=" + OfValue(f))
			}
			if f := rv.FieldByName("Location"); f.IsValid() {
				sb.WriteString(" loc=" + OfValue(f))
			}
		}
	}
	sb.WriteString("}")
	return sb.String()
}

var errorType = reflect.TypeOf((*error)(nil)).Elem()

func (w *walker) walk(v reflect.Value) {
	if !v.IsValid() {
		w.sb.WriteString("nil")
		return
	}
	w.depth++
	defer func() { w.depth-- }()
	if w.depth > 400 {
		w.sb.WriteString("<deep>")
		return
	}
	switch v.Kind() {
	case reflect.Bool:
		w.sb.WriteString(strconv.FormatBool(v.Bool()))
	case reflect.Int, reflect.Int8, reflect.Int16, reflect.Int32, reflect.Int64:
		w.sb.WriteString(strconv.FormatInt(v.Int(), 10))
	case reflect.Uint, reflect.Uint8, reflect.Uint16, reflect.Uint32, reflect.Uint64, reflect.Uintptr:
		w.sb.WriteString(strconv.FormatUint(v.Uint(), 10))
	case reflect.Float32, reflect.Float64:
		w.sb.WriteString(strconv.FormatFloat(v.Float(), 'g', -1, 64))
	case reflect.Complex64, reflect.Complex128:
		c := v.Complex()
		w.sb.WriteString(strconv.FormatFloat(real(c), 'g', -1, 64) + "+" + strconv.FormatFloat(imag(c), 'g', -1, 64) + "i")
	case reflect.String:
		w.sb.WriteString(strconv.Quote(v.String()))
	case reflect.Ptr:
		if v.IsNil() {
			w.sb.WriteString("nil")
			return
		}
		p := v.Pointer()
		if w.seen[p] {
			w.sb.WriteString("<cycle>")
			return
		}
		w.seen[p] = true
		w.sb.WriteString("&")
		w.walk(v.Elem())
		delete(w.seen, p)
	case reflect.Interface:
		if v.IsNil() {
			w.sb.WriteString("nil")
			return
		}
		e := v.Elem()
		if e.Type().Implements(errorType) && e.CanInterface() {
			w.sb.WriteString(Err(e.Interface().(error)))
			return
		}
		w.sb.WriteString("(" + e.Type().String() + ")")
		w.walk(e)
	case reflect.Slice, reflect.Array:
		if v.Kind() == reflect.Slice && v.Type().Elem().Kind() == reflect.Uint8 {
			b := make([]byte, v.Len())
			for i := range b {
				b[i] = byte(v.Index(i).Uint())
			}
			w.sb.WriteString("b" + strconv.Quote(string(b)))
			return
		}
		w.sb.WriteString("[")
		for i := 0; i < v.Len(); i++ {
			if i > 0 {
				w.sb.WriteString(",")
			}
			w.walk(v.Index(i))
		}
		w.sb.WriteString("]")
	case reflect.Map:
		keys := make([]string, 0, v.Len())
		vals := map[string]reflect.Value{}
		it := v.MapRange()
		for it.Next() {
			kw := &walker{seen: map[uintptr]bool{}}
			kw.walk(it.Key())
			k := kw.sb.String()
			keys = append(keys, k)
			vals[k] = it.Value()
		}
		sort.Strings(keys)
		w.sb.WriteString("map[")
		for i, k := range keys {
			if i > 0 {
				w.sb.WriteString(",")
			}
			w.sb.WriteString(k + ":")
			w.walk(vals[k])
		}
		w.sb.WriteString("]")
	case reflect.Struct:
		t := v.Type()
		w.sb.WriteString(t.String() + "{")
		first := true
		for i := 0; i < v.NumField(); i++ {
			f := v.Field(i)
			if isZeroish(f) {
				continue
			}
			if !first {
				w.sb.WriteString(",")
			}
			first = false
			w.sb.WriteString(t.Field(i).Name + ":")
			w.walk(f)
		}
		w.sb.WriteString("}")
	case reflect.Func:
		if v.IsNil() {
			w.sb.WriteString("nil")
		} else {
			w.sb.WriteString("func")
		}
	case reflect.Chan, reflect.UnsafePointer:
		w.sb.WriteString(v.Kind().String())
	default:
		w.sb.WriteString("?" + v.Kind().String())
	}
}

// isZeroish: zero values and empty slices/maps are omitted from structs, which
// makes nil and empty equal and keeps strings short.
func isZeroish(v reflect.Value) bool {
	switch v.Kind() {
	case reflect.Slice, reflect.Map:
		return v.Len() == 0
	case reflect.Ptr, reflect.Interface, reflect.Func, reflect.Chan:
		return v.IsNil()
	case reflect.Struct:
		for i := 0; i < v.NumField(); i++ {
			if !isZeroish(v.Field(i)) {
				return false
			}
		}
		return true
	case reflect.Array:
		for i := 0; i < v.Len(); i++ {
			if !isZeroish(v.Index(i)) {
				return false
			}
		}
		return true
	default:
		return v.IsZero()
	}
}

// Hash is FNV-1a of s.
func Hash(s string) uint64 {
	h := uint64(1469598103934665603)
	for i := 0; i < len(s); i++ {
		h = (h ^ uint64(s[i])) * 1099511628211
	}
	return h
}

// Diff returns a short description of where a and b first differ.
func Diff(a, b string) string {
	i := 0
	for i < len(a) && i < len(b) && a[i] == b[i] {
		i++
	}
	lo := i - 60
	if lo < 0 {
		lo = 0
	}
	cut := func(s string) string {
		hi := i + 100
		if hi > len(s) {
			hi = len(s)
		}
		if lo > len(s) {
			return ""
		}
		return s[lo:hi]
	}
	return fmt.Sprintf("at byte %d: …%s… vs …%s…", i, cut(a), cut(b))
}
