// Package gen produces the SQL workload material: the repository's own corpus
// (embedded), a small grammar generator and fault-like inputs. Every choice is
// drawn from the tape; 0 always maps to the simplest alternative.
package gen

import (
	"bufio"
	_ "embed"
	"encoding/json"
	"fmt"
	"strings"

	"verif/sim/tape"
)

//go:embed corpus.jsonl
var corpusRaw string

var corpus []string

func init() {
	sc := bufio.NewScanner(strings.NewReader(corpusRaw))
	sc.Buffer(make([]byte, 1<<20), 1<<20)
	for sc.Scan() {
		var s string
		if json.Unmarshal(sc.Bytes(), &s) == nil {
			corpus = append(corpus, s)
		}
	}
}

// Corpus returns the embedded statements.
func Corpus() []string { return corpus }

type G struct{ S *tape.Source }

func (g G) n(n int, l string) int { return g.S.Intn(n, l) }

func (g G) pick(l string, xs ...string) string { return xs[g.n(len(xs), l)] }

var tables = []string{"t", "users", "orders", "items", "logs", "a", "b"}
var cols = []string{"id", "name", "x", "y", "total", "created_at", "status", "amount"}

func (g G) ident() string { return g.pick("col", cols...) }
func (g G) table() string {
	t := g.pick("tbl", tables...)
	if g.n(6, "qualified") == 5 {
		return g.pick("schema", "public", "sales", "db1.dbo") + "." + t // schema-qualified
	}
	return t
}

func (g G) literal() string {
	switch g.n(6, "lit") {
	case 0:
		return "1"
	case 1:
		return fmt.Sprint(g.n(1000, "num"))
	case 2:
		return "'" + g.pick("str", "a", "abc", "x y", "o''k", "é", "😀z") + "'"
	case 3:
		return "NULL"
	case 4:
		return "TRUE"
	default:
		return "3.14"
	}
}

// Expr generates an expression of bounded depth.
func (g G) Expr(d int) string {
	if d <= 0 {
		if g.n(3, "leaf") == 0 {
			return g.ident()
		}
		if g.n(2, "leaf2") == 0 {
			return g.literal()
		}
		return g.table() + "." + g.ident()
	}
	switch g.n(16, "expr") {
	case 0:
		return g.ident()
	case 1:
		return g.literal()
	case 2:
		return g.Expr(d-1) + " " + g.pick("op", "=", "<", ">", "<>", "<=", ">=", "+", "-", "*", "/", "||") + " " + g.Expr(d-1)
	case 3:
		return g.Expr(d-1) + " " + g.pick("lop", "AND", "OR") + " " + g.Expr(d-1)
	case 4:
		return "(" + g.Expr(d-1) + ")"
	case 5:
		return "NOT " + g.Expr(d-1)
	case 6:
		return g.pick("fn", "COUNT", "SUM", "MAX", "MIN", "UPPER", "COALESCE") + "(" + g.Expr(d-1) + ")"
	case 7:
		s := "CASE"
		for i := 0; i <= g.n(3, "whens"); i++ {
			s += " WHEN " + g.Expr(d-1) + " THEN " + g.Expr(d-1)
		}
		if g.n(2, "else") == 1 {
			s += " ELSE " + g.Expr(d-1)
		}
		return s + " END"
	case 8:
		s := g.Expr(d-1) + " IN ("
		for i := 0; i <= g.n(4, "inlist"); i++ {
			if i > 0 {
				s += ", "
			}
			s += g.Expr(d - 1)
		}
		return s + ")"
	case 9:
		return g.Expr(d-1) + " IN (" + g.Select(d-1) + ")"
	case 10:
		return "EXISTS (" + g.Select(d-1) + ")"
	case 11:
		return g.Expr(d-1) + " BETWEEN " + g.Expr(d-1) + " AND " + g.Expr(d-1)
	case 12:
		return g.Expr(d-1) + " IS " + g.pick("isnot", "NULL", "NOT NULL")
	case 13:
		return g.Expr(d-1) + " LIKE 'a%'"
	case 14:
		return "(" + g.Select(d-1) + ")"
	default:
		// tuples, arrays, casts, window functions
		switch g.n(6, "expr2") {
		case 0:
			return "(" + g.Expr(d-1) + ", " + g.Expr(d-1) + ") IN ((1, 2), (3, 4))"
		case 1:
			return "ARRAY[" + g.Expr(d-1) + ", " + g.Expr(d-1) + "]"
		case 2:
			return "CAST(" + g.Expr(d-1) + " AS INTEGER)"
		case 3:
			return "ROW_NUMBER() OVER (PARTITION BY " + g.ident() + " ORDER BY " + g.ident() + " DESC)"
		case 4:
			return "SUM(" + g.ident() + ") OVER (ORDER BY " + g.ident() + " ROWS BETWEEN 1 PRECEDING AND CURRENT ROW)"
		default:
			return g.ident() + "[1]"
		}
	}
}

// Select generates a SELECT (possibly with joins, CTE-free).
func (g G) Select(d int) string {
	var sb strings.Builder
	sb.WriteString("SELECT ")
	if g.n(8, "distinct") == 7 {
		sb.WriteString("DISTINCT ")
	}
	nc := 1 + g.n(3, "ncols")
	for i := 0; i < nc; i++ {
		if i > 0 {
			sb.WriteString(", ")
		}
		if i == 0 && g.n(5, "star") == 4 {
			sb.WriteString("*")
			continue
		}
		sb.WriteString(g.Expr(d))
		if g.n(4, "alias") == 3 {
			sb.WriteString(" AS c" + fmt.Sprint(i))
		}
	}
	sb.WriteString(" FROM " + g.table())
	if g.n(3, "talias") == 2 {
		sb.WriteString(" " + g.pick("ta", "t1", "u", "o"))
	}
	for j := g.n(3, "joins"); j > 0; j-- {
		sb.WriteString(" " + g.pick("jk", "JOIN", "LEFT JOIN", "INNER JOIN", "RIGHT JOIN", "FULL OUTER JOIN") + " " + g.table() + " j" + fmt.Sprint(j) + " ON " + g.Expr(d))
	}
	if g.n(2, "where") == 1 {
		sb.WriteString(" WHERE " + g.Expr(d))
	}
	if g.n(4, "group") == 3 {
		sb.WriteString(" GROUP BY " + g.ident())
		if g.n(2, "having") == 1 {
			sb.WriteString(" HAVING " + g.Expr(d))
		}
	}
	if g.n(4, "order") == 3 {
		sb.WriteString(" ORDER BY " + g.ident() + g.pick("dir", "", " ASC", " DESC", " DESC NULLS LAST"))
	}
	if g.n(4, "limit") == 3 {
		sb.WriteString(" LIMIT " + fmt.Sprint(1+g.n(100, "lim")))
		if g.n(2, "offset") == 1 {
			sb.WriteString(" OFFSET 5")
		}
	}
	return sb.String()
}

// Stmt generates one statement of any kind.
func (g G) Stmt(d int) string {
	if g.n(16, "wrapped") == 15 {
		// statements that carry a whole query inside them
		return g.pick("wrap", "EXPLAIN ", "DESCRIBE ", "EXPLAIN ANALYZE ", "CREATE VIEW v AS ", "CREATE TABLE t2 AS ", "INSERT INTO logs ") + g.Select(d)
	}
	switch g.n(12, "stmt") {
	case 0, 1, 2:
		return g.Select(d)
	case 3:
		return g.Select(d) + " " + g.pick("setop", "UNION", "UNION ALL", "EXCEPT", "INTERSECT") + " " + g.Select(d)
	case 4:
		s := "WITH c1 AS (" + g.Select(d) + ")"
		if g.n(2, "cte2") == 1 {
			s += ", c2 (a, b) AS (" + g.Select(d) + ")"
		}
		return s + " " + g.Select(d)
	case 5:
		return "INSERT INTO " + g.table() + " (" + g.ident() + ", " + g.ident() + ") VALUES (" + g.Expr(d) + ", " + g.Expr(d) + ")"
	case 6:
		return "UPDATE " + g.table() + " SET " + g.ident() + " = " + g.Expr(d) + " WHERE " + g.Expr(d)
	case 7:
		return "DELETE FROM " + g.table() + " WHERE " + g.Expr(d)
	case 8:
		return "CREATE TABLE " + g.table() + " (id INT PRIMARY KEY, name VARCHAR(100) NOT NULL, x DECIMAL(10,2))"
	case 9:
		return "MERGE INTO " + g.table() + " t USING " + g.table() + " s ON t.id = s.id WHEN MATCHED THEN UPDATE SET x = s.x WHEN NOT MATCHED THEN INSERT (id, x) VALUES (s.id, s.x)"
	case 10:
		return "INSERT INTO " + g.table() + " SELECT * FROM " + g.table() + " WHERE " + g.Expr(d)
	default:
		return "WITH RECURSIVE r AS (SELECT 1 AS n UNION ALL SELECT n + 1 FROM r WHERE n < 5) " + g.Select(d)
	}
}

// Nested returns an expression statement nested to exactly depth parens.
func Nested(depth int) string {
	return "SELECT " + strings.Repeat("(", depth) + "1" + strings.Repeat(")", depth)
}

// Long returns a statement with roughly n tokens.
func Long(n int) string {
	var sb strings.Builder
	sb.WriteString("SELECT c0")
	for i := 1; sb.Len() < n*3 && i < n/2; i++ {
		fmt.Fprintf(&sb, ", c%d", i)
		if i%12 == 0 {
			// the tokenizer computes a token's column by scanning its line: one
			// 60 KB line would make every tokenization quadratic
			sb.WriteString("\n ")
		}
	}
	sb.WriteString(" FROM t")
	return sb.String()
}

var faultLike = []string{
	"", // empty
	";",
	";;",
	"   \n\t ",
	"SELECT",
	"SELECT * FROM",
	"SELECT * FROM t WHERE",
	"SELECT 'unterminated",
	"SELECT \"unterminated FROM t",
	"SELECT /* unterminated comment",
	"SELECT * FROM t LIMIT 10, 20",
	"SELECT `a` FROM `t`",
	"SELECT [a] FROM [t]",
	"SELECT TOP 5 * FROM t",
	"SELECT * FROM t; ; SELECT 1",
	"SELECT 1;;SELECT 2;",
	"-- only a comment",
	"SELECT 1 -- trailing comment\n",
	"/* lead */ SELECT /* mid */ 1 /* tail */",
	"SELECT a,\n  b,\n  c\nFROM t\nWHERE x = 1\n  AND y = 2\n",
	"SELECT * FORM t",
	"SELCT * FROM t",
	"SELECT * FROM t WHRE x = 1",
	"SELECT * FROM t GROUP x",
	"INSERT INTO t VALUES",
	"UPDATE t SET",
	"DELETE t",
	"CREATE TABLE",
	"SELECT (1, 2",
	"SELECT ARRAY[1, 2",
	"SELECT CASE WHEN 1 THEN",
	"SELECT * FROM a JOIN b ON",
	"WITH c AS (SELECT 1",
	"WITH c AS (SELECT 1) SELECT * FROM c UNION",
	"SELECT 1 @ 2",
	"SELECT 'a' 'b' FROM",
	"SELECT \x00 FROM t",
	"SELECT é FROM t",
	"SELECT '😀' AS \"ключ\" FROM t",
	"SELECT 1e",
	"SELECT 1 FROM t WHERE a IN (SELECT b FROM u WHERE c IN (SELECT d FROM v WHERE",
	// escapes inside string literals: valid, invalid, and a backslash as the last byte
	"SELECT 'it\\'s', 'tab\\t', 'nl\\n' FROM t",
	"SELECT 'C:\\data' FROM t",
	"SELECT 'a\\qb' FROM t WHERE x = 'y'",
	"SELECT 'trailing\\",
	// quoted identifiers: a line break inside one, an unterminated one, doubled quotes
	"SELECT \"first_name\nlast_name\" FROM users",
	"SELECT \"a\"\"b\", \"c d\" FROM \"t\"",
	"SELECT \"unterminated",
	"SELECT `a\nb` FROM t",
	"SELECT $$dollar quoted$$, $tag$ x $tag$ FROM t",
	"SELECT 'bob' AS name, \"Quoted Col\" FROM \"users\" WHERE city = 'Z\u00fcrich'",
	// rejected at the very first byte of a multi-line input (nothing consumed, line table already built)
	"\ufeffSELECT a\nFROM t\nWHERE x = 1\n",
	"^\nSELECT\n  1\nFROM t",
	"\\\nSELECT 1\nFROM t\n",
	"'unterminated\nacross\nseveral\nlines",
	"`open\nacross\nlines",
	"}\n\n\nSELECT 1",
}

// LongToken returns a short statement around ONE token of about size bytes: a
// block comment (with an apostrophe inside), a line comment, a string literal,
// a dollar-quoted body or a quoted identifier. Work inside one token is not
// visible in token counts.
func LongToken(kind, size int) string {
	fill := strings.Repeat("lorem ipsum, it's 42 * (x) ", size/27+1)[:size]
	switch kind % 5 {
	case 0:
		return "SELECT a /* " + fill + " */ FROM t WHERE a = 1"
	case 1:
		return "SELECT a -- " + strings.ReplaceAll(fill, "\n", " ") + "\nFROM t"
	case 2:
		return "SELECT '" + strings.ReplaceAll(fill, "'", "''") + "' AS s FROM t"
	case 3:
		return "SELECT $body$" + fill + "$body$ FROM t"
	default:
		return "SELECT \"" + strings.ReplaceAll(fill, "\"", "") + "\" FROM t"
	}
}

// FaultLike returns a fault-like input: fixed list, deep nesting around the
// recursion limit, long inputs around the tokenizer's poll interval, or a
// single-token corruption of a generated/corpus statement.
func (g G) FaultLike() string {
	switch g.n(7, "fk") {
	case 6:
		return LongToken(g.n(5, "ltkind"), []int{600, 4100, 4100, 9000, 20000}[g.n(5, "ltsize")])
	case 0, 1:
		return faultLike[g.n(len(faultLike), "fl")]
	case 2:
		return Nested([]int{1, 20, 97, 98, 99, 100, 101, 102, 150, 300}[g.n(10, "depth")])
	case 3:
		return Long([]int{90, 101, 199, 201, 450, 1200}[g.n(6, "long")])
	default:
		return g.Corrupt(g.Valid())
	}
}

// Valid returns a statement that is usually accepted: corpus or generated.
// Wide returns a statement with ONE wide construct (n siblings): an IN list, a
// function call, a VALUES row or a select list - breadth, where Nested is depth.
func Wide(kind, n int) string {
	var sb strings.Builder
	item := func(i int) string {
		switch i % 4 {
		case 0:
			return fmt.Sprint(i)
		case 1:
			return fmt.Sprintf("'v%d'", i)
		case 2:
			return fmt.Sprintf("c%d", i)
		default:
			return fmt.Sprintf("ARRAY[%d]", i)
		}
	}
	for i := 0; i < n; i++ {
		if i > 0 {
			sb.WriteString(", ")
			if i%16 == 0 {
				sb.WriteString("\n ")
			}
		}
		sb.WriteString(item(i))
	}
	switch kind % 4 {
	case 0:
		return "SELECT a FROM t WHERE c NOT IN (" + sb.String() + ") AND d = 1"
	case 1:
		return "SELECT COALESCE(" + sb.String() + ") FROM t"
	case 2:
		return "INSERT INTO t VALUES (" + sb.String() + ")"
	default:
		return "SELECT " + sb.String() + " FROM t ORDER BY 1"
	}
}

func (g G) Valid() string {
	if g.n(40, "wide") == 39 {
		return Wide(g.n(4, "widekind"), []int{255, 256, 257, 600, 1100}[g.n(5, "widen")])
	}
	switch g.n(4, "src") {
	case 1:
		return corpus[g.n(len(corpus), "corp")]
	case 3:
		return g.Feature()
	}
	return g.Stmt(1 + g.n(2, "d"))
}

// Corrupt applies one token-level corruption.
func (g G) Corrupt(s string) string {
	f := strings.Fields(s)
	if len(f) == 0 {
		return s
	}
	i := g.n(len(f), "cpos")
	switch g.n(7, "ckind") {
	case 5, 6:
		// a prefix of the text, cut at a byte - preferably right after a
		// punctuation character, where a parser has just committed to a construct
		var after []int
		for k := 0; k < len(s); k++ {
			switch s[k] {
			case '.', '(', ',', '=', ':', '[', '\'', '"':
				after = append(after, k+1)
			}
		}
		if len(after) > 0 && g.n(2, "cutpunct") == 1 {
			return s[:after[g.n(len(after), "cutat")]]
		}
		return s[:g.n(len(s), "cutbyte")]
	case 0: // delete token
		f = append(f[:i], f[i+1:]...)
	case 1: // truncate after token
		f = f[:i+1]
	case 2: // duplicate token
		f = append(f[:i+1], f[i:]...)
	case 3: // typo in token
		if len(f[i]) > 2 {
			b := []byte(f[i])
			b[0], b[1] = b[1], b[0]
			f[i] = string(b)
		} else {
			f[i] = f[i] + "q"
		}
	default: // stray symbol
		f[i] = f[i] + " " + g.pick("sym", ")", "(", ",", "'", "@@", ";")
	}
	return strings.Join(f, " ")
}

// Multi joins 2-4 statements with semicolons and line breaks.
func (g G) Multi() string {
	n := 2 + g.n(3, "nst")
	parts := make([]string, n)
	for i := range parts {
		parts[i] = g.Stmt(1)
	}
	return strings.Join(parts, g.pick("sep", ";\n", "; ", ";\n\n-- next\n"))
}

// Any returns an arbitrary input: 0 → a simple valid statement.
func (g G) Any() string {
	switch g.n(8, "any") {
	case 0, 1, 2, 3:
		return g.Valid()
	case 4:
		return g.Multi()
	case 5:
		return corpus[g.n(len(corpus), "corp")]
	default:
		return g.FaultLike()
	}
}

// ExprFamily returns an input of family f whose bulk sits inside ONE top-level
// expression, together with a lower bound on the number of (nested) expressions
// it contains. The parser documents that it polls the context at the start of
// every expression it parses, recursively.
func ExprFamily(f, n int) (sql string, exprs int) {
	var sb strings.Builder
	switch f % 4 {
	case 0: // IN list
		sb.WriteString("SELECT id FROM t WHERE id IN (")
		for i := 0; i < n; i++ {
			if i > 0 {
				sb.WriteString(", ")
			}
			fmt.Fprintf(&sb, "%d", i)
		}
		sb.WriteString(")")
	case 1: // function arguments
		sb.WriteString("SELECT COALESCE(")
		for i := 0; i < n; i++ {
			if i > 0 {
				sb.WriteString(", ")
			}
			fmt.Fprintf(&sb, "c%d", i)
		}
		sb.WriteString(") FROM t")
	case 2: // CASE branches
		sb.WriteString("SELECT CASE")
		for i := 0; i < n/2+1; i++ {
			fmt.Fprintf(&sb, " WHEN a = %d THEN %d", i, i)
		}
		sb.WriteString(" END FROM t")
	default: // sub-query with many select items inside a predicate
		sb.WriteString("SELECT id FROM t WHERE EXISTS (SELECT c0")
		for i := 1; i < n; i++ {
			fmt.Fprintf(&sb, ", c%d", i)
		}
		sb.WriteString(" FROM u)")
	}
	return sb.String(), n
}
