package gen

import "strings"

func stringsIndex(s, w string) int { return strings.Index(s, w) }

// features: hand-written statements, one or two per grammar feature, so that
// no construct the parser knows is reachable only through the corpus of the
// repository's own tests. Not all of them need to be accepted by every
// dialect - a rejected input is an input too.
var features = []string{
	// ordering and grouping by position / expression / with modifiers
	"SELECT name, total FROM orders ORDER BY 2 DESC, 1",
	"SELECT a[1], b FROM t ORDER BY 1",
	"SELECT (x, y), ARRAY[x, y] FROM t ORDER BY 2, 1 NULLS FIRST",
	"SELECT status, COUNT(*) FROM orders GROUP BY 1 ORDER BY 2 DESC",
	"SELECT x, y, SUM(total) FROM orders GROUP BY ROLLUP (x, y)",
	"SELECT x, y, SUM(total) FROM orders GROUP BY GROUPING SETS ((x), (y), ())",
	"SELECT x, SUM(total) FROM orders GROUP BY CUBE (x, y) HAVING SUM(total) > 10",
	// window functions: zero-argument, named windows, frames, FILTER, WITHIN GROUP
	"SELECT ROW_NUMBER() OVER (ORDER BY id), RANK() OVER (PARTITION BY x ORDER BY y) FROM t",
	"SELECT DENSE_RANK() OVER w, CUME_DIST() OVER w FROM t WINDOW w AS (PARTITION BY status ORDER BY total DESC)",
	"SELECT LAG(x, 1) OVER (ORDER BY id), LEAD(x) OVER (ORDER BY id ROWS BETWEEN UNBOUNDED PRECEDING AND UNBOUNDED FOLLOWING) FROM t",
	"SELECT SUM(x) OVER (ORDER BY id RANGE BETWEEN 1 PRECEDING AND 1 FOLLOWING) FROM t",
	"SELECT COUNT(*) FILTER (WHERE x > 1), SUM(y) FILTER (WHERE status = 'a') OVER (PARTITION BY x) FROM t",
	"SELECT PERCENTILE_CONT(0.5) WITHIN GROUP (ORDER BY total) FROM orders",
	"SELECT NOW(), CURRENT_TIMESTAMP, COUNT(DISTINCT x), STRING_AGG(name, ',' ORDER BY name) FROM t",
	// DML with its less common clauses
	"INSERT INTO t (id, name) VALUES (1, 'a'), (2, 'b'), (3, 'c')",
	"INSERT INTO t (id, name) VALUES (1, 'a') ON CONFLICT (id) DO UPDATE SET name = EXCLUDED.name",
	"INSERT INTO t (id) VALUES (1) ON CONFLICT DO UPDATE SET id = 2",
	"INSERT INTO t (id) VALUES (1) ON CONFLICT DO NOTHING RETURNING id",
	"UPDATE t SET x = u.x, y = DEFAULT FROM users u WHERE t.id = u.id RETURNING t.id, t.x",
	"DELETE FROM t USING users u WHERE t.id = u.id RETURNING *",
	"MERGE INTO t USING s ON t.id = s.id WHEN MATCHED AND s.x IS NULL THEN DELETE WHEN MATCHED THEN UPDATE SET x = s.x WHEN NOT MATCHED THEN INSERT (id) VALUES (s.id)",
	"REPLACE INTO t (id, name) VALUES (1, 'a')",
	"VALUES (1, 'a'), (2, 'b')",
	// joins and table expressions
	"SELECT * FROM a NATURAL JOIN b CROSS JOIN users",
	"SELECT * FROM a JOIN b USING (id, name) LEFT JOIN orders o ON o.id = a.id AND o.x IS NOT NULL",
	"SELECT * FROM users u, LATERAL (SELECT * FROM orders o WHERE o.user_id = u.id LIMIT 3) x",
	"SELECT * FROM (SELECT id FROM t) AS s (k) WHERE k IN (SELECT id FROM a)",
	"SELECT DISTINCT ON (x) x, y FROM t ORDER BY x, y DESC",
	"SELECT * FROM t FETCH FIRST 5 ROWS ONLY",
	"SELECT * FROM t OFFSET 10 ROWS FETCH NEXT 5 ROWS ONLY",
	"SELECT * FROM t WHERE x = 1 FOR UPDATE",
	"SELECT * FROM generate_series(1, 10) AS g (n)",
	// expressions
	"SELECT a[1:2], a[1][2], (x, y) = (1, 2), ROW(1, 2) FROM t",
	"SELECT x::INTEGER, CAST(y AS DECIMAL(10, 2)), '2024-01-01'::DATE FROM t",
	"SELECT EXTRACT(YEAR FROM created_at), INTERVAL '1 day', created_at + INTERVAL '2 hours' FROM t",
	"SELECT SUBSTRING(name FROM 1 FOR 3), POSITION('a' IN name), TRIM(BOTH ' ' FROM name) FROM t",
	"SELECT data -> 'a', data ->> 'b', data #> '{a,b}', data @> '{\"a\":1}' FROM t WHERE data ? 'k'",
	"SELECT * FROM t WHERE x = ANY (ARRAY[1, 2]) AND y > ALL (SELECT y FROM a) AND name ILIKE 'a%'",
	"SELECT * FROM t WHERE x IS DISTINCT FROM y OR name SIMILAR TO 'a%' OR x NOT BETWEEN 1 AND 2",
	"SELECT COALESCE(x, y, 0), NULLIF(x, 0), GREATEST(x, y), CASE x WHEN 1 THEN 'a' WHEN 2 THEN 'b' END FROM t",
	"SELECT -x, +y, NOT (x > 1), x % 2, x || 'a', 1e10, .5, 0x1F FROM t",
	"SELECT CASE WHEN EXISTS (SELECT 1 FROM a WHERE a.id = t.id) THEN (SELECT MAX(x) FROM b) ELSE NULL END FROM t",
	// set operations and CTEs
	"(SELECT id FROM a) UNION ALL (SELECT id FROM b) ORDER BY 1 LIMIT 5",
	"SELECT id FROM a INTERSECT SELECT id FROM b EXCEPT SELECT id FROM t",
	"WITH x AS (SELECT 1 AS n), y AS (SELECT n + 1 AS m FROM x) SELECT * FROM x JOIN y ON x.n = y.m - 1",
	"WITH del AS (DELETE FROM t WHERE x = 1 RETURNING *) INSERT INTO logs SELECT * FROM del",
	"WITH c AS MATERIALIZED (SELECT 1) SELECT * FROM c",
	// DDL
	"CREATE TABLE IF NOT EXISTS t (id SERIAL PRIMARY KEY, u INT REFERENCES users (id) ON DELETE CASCADE, name TEXT DEFAULT 'x' CHECK (name <> ''), UNIQUE (u, name))",
	"CREATE TABLE p (id INT, d DATE) PARTITION BY RANGE (d)",
	"CREATE UNIQUE INDEX IF NOT EXISTS idx ON t USING btree (x DESC, lower(name)) WHERE x > 0",
	"CREATE OR REPLACE VIEW v (a, b) AS SELECT x, y FROM t WITH CHECK OPTION",
	"CREATE MATERIALIZED VIEW mv AS SELECT x, COUNT(*) FROM t GROUP BY x WITH NO DATA",
	"REFRESH MATERIALIZED VIEW CONCURRENTLY mv",
	"ALTER TABLE t ADD COLUMN z INT NOT NULL DEFAULT 0, DROP COLUMN y",
	"ALTER TABLE t RENAME COLUMN x TO x2",
	"ALTER TABLE t ADD CONSTRAINT fk FOREIGN KEY (u) REFERENCES users (id)",
	"DROP TABLE IF EXISTS a, b CASCADE",
	"DROP INDEX idx",
	"TRUNCATE TABLE a, b RESTART IDENTITY CASCADE",
	// dialect specific
	"SELECT `id`, `name` FROM `users` WHERE `x` = 1 LIMIT 5, 10",
	"SELECT TOP 10 [id], [name] FROM [users] WITH (NOLOCK)",
	"SELECT * FROM t WHERE ROWNUM <= 5",
	"SELECT id, name FROM employees START WITH manager_id IS NULL CONNECT BY PRIOR id = manager_id",
	"SELECT x, ROW_NUMBER() OVER (ORDER BY y) AS rn FROM t QUALIFY rn = 1",
	"SHOW TABLES",
	"DESCRIBE users",
	"EXPLAIN SELECT * FROM t",
	"SELECT $1, $2 FROM t WHERE x = :name AND y = ?",
	"SELECT $$a 'quoted' body$$, $fn$ SELECT 1; $fn$",
	"SELECT 1; SELECT 2; ; SELECT 3",
	// what the security scanner looks for (alone and next to dollar-quoted bodies)
	"SELECT * FROM users WHERE name = 'x' OR 1=1 --",
	"SELECT * FROM t WHERE id = 1; DROP TABLE users",
	"SELECT * FROM t WHERE id = 1 UNION SELECT username, password FROM users",
	"SELECT $$x$$, SLEEP(5), BENCHMARK(1000000, MD5('a')) FROM t",
	"SELECT $q$ safe $q$ FROM t WHERE a = '' OR ''='' AND LOAD_FILE('/etc/passwd') IS NOT NULL",
	"SELECT pg_sleep(10); SELECT $tag$ body; drop table y $tag$; DROP TABLE x --",
	"SELECT * FROM t WHERE name LIKE '%' || $1 || '%' AND note = $$it's$$",
	"SELECT * FROM information_schema.tables WHERE 'a'='a' /* $$ */ AND xp_cmdshell('dir') IS NULL",
}

// Feature returns one statement of the feature list.
func (g G) Feature() string { return features[g.n(len(features), "feature")] }

// Features exposes the list (systematic strata enumerate it).
func Features() []string { return features }

// swaps: words of the same grammatical class. A statement and its variant have
// the same shape up to one word, so what an instance remembers about a token
// position of the first matters for the second.
var swaps = [][2]string{
	{"UPDATE", "SHARE"}, {"TEMPORARY", "TEMP"}, {"RESTART", "CONTINUE"}, {"CASCADE", "RESTRICT"}, {"ASC", "DESC"},
	{"UNION", "EXCEPT"}, {"LEFT", "RIGHT"}, {"INNER", "FULL"}, {"FIRST", "LAST"}, {"ROWS", "RANGE"},
	{"PRECEDING", "FOLLOWING"}, {"ALL", "DISTINCT"}, {"AND", "OR"}, {"MATCHED", "NOT MATCHED"}, {"NOTHING", "UPDATE SET id = 2"},
	{"VIEW", "TABLE"}, {"UNIQUE", ""}, {"CONCURRENTLY", ""}, {"IF EXISTS", ""}, {"NATURAL", "CROSS"}, {"SELECT", "SELECT DISTINCT"},
	{"INTERSECT", "UNION ALL"}, {"NULLS FIRST", "NULLS LAST"}, {"WITH", "WITH RECURSIVE"}, {"IN", "NOT IN"}, {"IS", "IS NOT"},
	{"LIKE", "ILIKE"}, {"BETWEEN", "NOT BETWEEN"}, {"EXISTS", "NOT EXISTS"}, {"INSERT", "REPLACE"}, {"KEY", "NO KEY"},
}

// Variant returns sql with one word replaced by another of its class (either
// direction), or with one identifier shortened or lengthened; ok=false if
// nothing applies.
func (g G) Variant(sql string) (string, bool) {
	start := g.n(len(swaps), "vswap")
	for i := range swaps {
		sw := swaps[(start+i)%len(swaps)]
		a, b := sw[0], sw[1]
		if g.n(2, "vdir") == 1 && b != "" {
			a, b = b, a
		}
		if a == "" {
			continue
		}
		if k := indexWord(sql, a); k >= 0 && g.n(3, "vkind") != 2 {
			return sql[:k] + b + sql[k+len(a):], true
		}
	}
	// identifier: shorten or lengthen one lower-case word (offsets of what follows move)
	words := lowerWords(sql)
	if len(words) == 0 {
		return sql, false
	}
	w := words[g.n(len(words), "vword")]
	if g.n(2, "vlen") == 1 && w[1]-w[0] > 1 {
		return sql[:w[0]+1] + sql[w[1]:], true
	}
	return sql[:w[1]] + "_longer_name" + sql[w[1]:], true
}

func isWordByte(c byte) bool {
	return c == '_' || c >= '0' && c <= '9' || c >= 'a' && c <= 'z' || c >= 'A' && c <= 'Z'
}

func indexWord(s, w string) int {
	for from := 0; from < len(s); {
		k := stringsIndex(s[from:], w)
		if k < 0 {
			return -1
		}
		k += from
		if (k == 0 || !isWordByte(s[k-1])) && (k+len(w) == len(s) || !isWordByte(s[k+len(w)])) {
			return k
		}
		from = k + 1
	}
	return -1
}

func lowerWords(s string) [][2]int {
	var out [][2]int
	for i := 0; i < len(s); {
		if s[i] >= 'a' && s[i] <= 'z' && (i == 0 || !isWordByte(s[i-1])) {
			j := i
			for j < len(s) && isWordByte(s[j]) {
				j++
			}
			out = append(out, [2]int{i, j})
			i = j
			continue
		}
		i++
	}
	return out
}

// BigMultiline returns about kib KiB of short multi-line statements (more than
// any chunk or window size a scanner may work in); bad != 0 puts a tokenizer
// error (1) or a syntax error (2) on the last line.
func BigMultiline(kib, bad int) string {
	var sb strings.Builder
	for i := 0; sb.Len() < kib*1024; i++ {
		sb.WriteString("SELECT id, name -- row\nFROM t\nWHERE x = 1;\n")
	}
	switch bad {
	case 1:
		sb.WriteString("SELECT 'unterminated\n")
	case 2:
		sb.WriteString("SELECT a FROM t WHERE\n  AND\n")
	}
	return sb.String()
}
