package tape

import "time"

// Shrink minimises a failing tape. fails(t) must report whether the run driven
// by t still fails with the same oracle id; it returns the tape the run
// actually consumed (so trailing unused draws vanish). Bounded by evaluations
// and wall clock.
func Shrink(t []uint32, labels []string, fails func([]uint32) (bool, []uint32), maxEval int, maxDur time.Duration) ([]uint32, int) {
	deadline := time.Now().Add(maxDur)
	evals := 0
	best := append([]uint32(nil), t...)
	try := func(c []uint32) bool {
		if evals >= maxEval || time.Now().After(deadline) {
			return false
		}
		evals++
		ok, used := fails(c)
		if ok {
			if used != nil && len(used) <= len(c) {
				c = used
			}
			// drop trailing zeros: past-the-end draws read 0 anyway
			for len(c) > 0 && c[len(c)-1] == 0 {
				c = c[:len(c)-1]
			}
			best = append([]uint32(nil), c...)
			return true
		}
		return false
	}
	try(best)
	improved := true
	for pass := 0; improved && pass < 6; pass++ {
		improved = false
		// 1. truncate tail (binary)
		for n := len(best) / 2; n >= 1; n /= 2 {
			for len(best) > n && try(best[:len(best)-n]) {
				improved = true
			}
		}
		// 2. delete blocks
		for size := len(best) / 2; size >= 1; size /= 2 {
			for i := 0; i+size <= len(best); {
				c := append(append([]uint32(nil), best[:i]...), best[i+size:]...)
				if try(c) {
					improved = true
				} else {
					i += size
				}
			}
			if evals >= maxEval || time.Now().After(deadline) {
				break
			}
		}
		// 3. zero blocks
		for size := len(best) / 2; size >= 1; size /= 2 {
			for i := 0; i+size <= len(best); i += size {
				nz := false
				for _, v := range best[i : i+size] {
					if v != 0 {
						nz = true
					}
				}
				if !nz {
					continue
				}
				c := append([]uint32(nil), best...)
				for j := i; j < i+size; j++ {
					c[j] = 0
				}
				if try(c) {
					improved = true
				}
			}
			if evals >= maxEval || time.Now().After(deadline) {
				break
			}
		}
		// 4. lower individual values
		for i := 0; i < len(best); i++ {
			if best[i] == 0 {
				continue
			}
			lo, hi := uint32(0), best[i]
			for lo < hi {
				mid := lo + (hi-lo)/2
				if i >= len(best) {
					break
				}
				c := append([]uint32(nil), best...)
				c[i] = mid
				if try(c) {
					hi = mid
					improved = true
					if i >= len(best) {
						break
					}
				} else {
					lo = mid + 1
				}
			}
			if evals >= maxEval || time.Now().After(deadline) {
				break
			}
		}
	}
	return best, evals
}
