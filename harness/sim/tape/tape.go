// Package tape is the single source of choices of a simulated run.
//
// Live mode draws from a SplitMix64 stream seeded from (VERIF_SEED, property,
// run index) and records every draw; replay mode reads a recorded tape and
// answers 0 ("the simplest choice") once the tape is exhausted. Generators map
// 0 to: no fault, keep running the current task, the shortest input, a pool
// miss.
package tape

import "hash/fnv"

type Source struct {
	state  uint64
	replay bool
	in     []uint32
	pos    int
	// Rec is the tape recorded so far (live) or consumed so far (replay, after
	// clamping) – always a valid replay of this run.
	Rec    []uint32
	Labels []string // parallel to Rec when KeepLabels
	// KeepLabels records the label of every draw (used for decoded traces and
	// for block-aligned shrinking).
	KeepLabels bool
	h          uint64
}

// Mix derives the seed of run i of a property batch.
func Mix(seed int64, prop string, i int) uint64 {
	h := fnv.New64a()
	h.Write([]byte(prop))
	x := h.Sum64() ^ uint64(seed)*0x9E3779B97F4A7C15 ^ uint64(i+1)*0xD1B54A32D192ED03
	x ^= x >> 31
	x *= 0xBF58476D1CE4E5B9
	x ^= x >> 29
	return x
}

func Live(seed uint64) *Source { return &Source{state: seed, h: 1469598103934665603} }

// LivePrefix is a live source whose first draws are given (systematic strata:
// the stratum index is the first choice of the run; everything else is drawn).
func LivePrefix(seed uint64, prefix []uint32) *Source {
	return &Source{state: seed, in: prefix, h: 1469598103934665603}
}

func Replay(t []uint32) *Source {
	return &Source{replay: true, in: t, h: 1469598103934665603}
}

//go:norace
func (s *Source) next() uint64 {
	s.state += 0x9E3779B97F4A7C15
	z := s.state
	z = (z ^ (z >> 30)) * 0xBF58476D1CE4E5B9
	z = (z ^ (z >> 27)) * 0x94D049BB133111EB
	return z ^ (z >> 31)
}

// Intn returns a choice in [0,n). n<=1 returns 0 without consuming the tape.
//
//go:norace
func (s *Source) Intn(n int, label string) int {
	if n <= 1 {
		return 0
	}
	var v uint32
	if s.replay {
		if s.pos < len(s.in) {
			v = s.in[s.pos] % uint32(n)
		}
		s.pos++
	} else if s.pos < len(s.in) {
		v = s.in[s.pos] % uint32(n)
		s.pos++
	} else {
		v = uint32(s.next()>>33) % uint32(n)
	}
	// manual growth: growslice is race-annotated by the runtime even in norace
	// code, and Intn runs on simulated task goroutines
	if n := len(s.Rec); n == cap(s.Rec) {
		grown := make([]uint32, n, 2*n+256)
		for i := 0; i < n; i++ {
			grown[i] = s.Rec[i]
		}
		s.Rec = grown
	}
	s.Rec = s.Rec[:len(s.Rec)+1]
	s.Rec[len(s.Rec)-1] = v
	if s.KeepLabels {
		s.Labels = append(s.Labels, label)
	}
	s.h = (s.h ^ uint64(v) ^ uint64(n)<<32) * 1099511628211
	return int(v)
}

// Bool is true with probability num/den; 0 maps to false.
//
//go:norace
func (s *Source) Bool(num, den int, label string) bool {
	if num <= 0 {
		return false
	}
	if num >= den {
		return true
	}
	return s.Intn(den, label) >= den-num
}

// Hash identifies the sequence of (choice, arity) pairs drawn so far.
func (s *Source) Hash() uint64 { return s.h }

// Exhausted reports whether a replay read past the end of its tape.
func (s *Source) Exhausted() bool { return s.replay && s.pos > len(s.in) }

// Consumed is the number of draws made.
func (s *Source) Consumed() int { return len(s.Rec) }
