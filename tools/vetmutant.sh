#!/bin/bash
# usage: tools/vetmutant.sh <worktree> <seeded-id> <PROPERTY>
# Confirms a sub-agent's seeded change: builds, existing tests pass (only the two baseline root-permission
# failures allowed), its demonstration fails with the change and passes without. On success stores it under
# /verif/seeded/<seeded-id>/ (patch.diff, demo_mutant/, MUTANT.md, meta.json).
set -u
export GOFLAGS=-mod=mod GOPROXY=off GOSUMDB=off GOTOOLCHAIN=local
wt=$1; id=$2; prop=$3
cd "$wt" || exit 2
[ -s MUTANT.diff ] || git diff -- . ':!demo_mutant' ':!MUTANT.diff' ':!MUTANT.md' > MUTANT.diff
[ -s MUTANT.diff ] || { echo "vetmutant: empty diff"; exit 1; }
files=$(git diff --name-only -- . ':!demo_mutant' ':!MUTANT.diff' ':!MUTANT.md')
echo "changed: $files"
if echo "$files" | grep -q "_test.go"; then echo "vetmutant: touches tests"; exit 1; fi
go build ./... || { echo "vetmutant: BUILD FAILS"; exit 1; }
demo_cmd="go test -count=1 ./demo_mutant/"
[ -f demo_mutant/run.sh ] && demo_cmd="bash demo_mutant/run.sh"
# 1. existing tests with the change (demo excluded)
pkgs=$(go list ./... | grep -v demo_mutant)
go test -vet=off -count=1 $pkgs > /var/tmp/vet.$id.tests 2>&1
fails=$(grep -E "^--- FAIL" /var/tmp/vet.$id.tests | grep -v "TestValidator_PermissionDenied\|TestValidateInputFile_NoReadPermissions" | head -5)
badpk=$(grep -E "^FAIL\s" /var/tmp/vet.$id.tests | grep -v "cmd/gosqlx/cmd\s\|internal/validate\s" | head -5)
if [ -n "$fails$badpk" ]; then echo "vetmutant: EXISTING TESTS FAIL: $fails $badpk"; exit 1; fi
echo "existing tests: ok (only baseline failures)"
# 2. demo fails with the change
$demo_cmd > /var/tmp/vet.$id.demo1 2>&1; rc1=$?
# 3. demo passes without
# (not git stash: refs/stash is shared by all worktrees of the repository)
git diff -- $files > /var/tmp/vet.$id.src.patch || exit 2
git checkout -- $files || exit 2
$demo_cmd > /var/tmp/vet.$id.demo2 2>&1; rc2=$?
git apply /var/tmp/vet.$id.src.patch || { echo "vetmutant: re-apply failed"; exit 2; }
echo "demo with change rc=$rc1, without rc=$rc2"
if [ $rc1 = 0 ] || [ $rc2 != 0 ]; then echo "vetmutant: DEMO DOES NOT DISCRIMINATE"; tail -n 5 /var/tmp/vet.$id.demo1; tail -n 5 /var/tmp/vet.$id.demo2; exit 1; fi
d=/verif/seeded/$id; rm -rf "$d"; mkdir -p "$d"
cp MUTANT.diff "$d/patch.diff"; cp -r demo_mutant "$d/"; [ -f MUTANT.md ] && cp MUTANT.md "$d/"
python3 - "$d" "$prop" "$files" "$demo_cmd" <<'PY'
import json,sys
d,prop,files,demo=sys.argv[1:5]
md=open(d+'/MUTANT.md').read() if __import__('os').path.exists(d+'/MUTANT.md') else ''
json.dump({"property":prop,"files_changed":files.split(),"needs_to_manifest":"see MUTANT.md","confirmed":{"build":"go build ./... ok","existing_tests":"go test -vet=off -count=1 ./... : only the two baseline always_fail tests fail","demo_with_change":demo+" -> FAIL","demo_without_change":demo+" -> PASS"},"origin":"fresh sub-agent given only the property text and a scratch worktree"},open(d+'/meta.json','w'),indent=1)
PY
echo "vetmutant: STORED $d"
