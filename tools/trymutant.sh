#!/bin/bash
# usage: tools/trymutant.sh <patch.diff> <ID> [tier]
# Runs the check of property <ID> against ajitpratap0/GoSQLX WITH a seeded change applied, and prints
# CAUGHT/MISSED. The change is applied to a scratch worktree of /repo (outside /repo and /verif, removed
# afterwards) and the check is pointed at it with VERIF_REPO – equivalent to `git -C /repo apply; ./check;
# git -C /repo checkout -- .` but safe while other runs are reading /repo. Evidence and replays of the
# real tree are not touched (VERIF_NOEVIDENCE).
set -u
patch=$(readlink -f "$1"); id=$2; tier=${3:-quick}
wt=$(mktemp -d /var/tmp/mutrepo.XXXXXX)
rmdir "$wt"
git -C /repo worktree add -q --detach "$wt" HEAD || { echo "trymutant: cannot create worktree" >&2; exit 2; }
cleanup() { git -C /repo worktree remove --force "$wt" 2>/dev/null; rm -rf "$wt"; git -C /repo worktree prune; rm -f "$out"; }
out=$(mktemp /var/tmp/trymutant.XXXXXX)
trap cleanup EXIT
git -C "$wt" apply "$patch" || { echo "trymutant: patch does not apply" >&2; exit 2; }
(cd /verif && VERIF_REPO="$wt" VERIF_NOEVIDENCE=1 ./check "$id" "$tier") > "$out" 2>&1
rc=$?
grep -E "^VIOLATION|^KNOWN-FINDING|^\[C[0-9]+\] eval|INFRA" "$out" | cut -c1-260 | head -12
grep -A2 "^VIOLATION" "$out" | grep "^    [a-zA-Z]" | grep -v "oracle=" | cut -c1-400 | head -4
case $rc in 1) echo "RESULT: CAUGHT ($id $tier)";; 0) echo "RESULT: MISSED ($id $tier)";; *) echo "RESULT: INFRA rc=$rc"; tail -5 "$out";; esac
