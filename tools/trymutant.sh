#!/bin/bash
# usage: tools/trymutant.sh <patch.diff> <ID> [tier]   – apply a seeded change to /repo, run the check, undo it.
# Prints CAUGHT/MISSED. Never leaves /repo modified.
set -u
patch=$(readlink -f "$1"); id=$2; tier=${3:-quick}
cd /repo || exit 2
if ! git diff --quiet; then echo "trymutant: /repo has uncommitted changes" >&2; exit 2; fi
git apply "$patch" || { echo "trymutant: patch does not apply" >&2; exit 2; }
trap 'git -C /repo checkout -- . ; git -C /repo clean -fdq -- demo_mutant 2>/dev/null' EXIT
out=$(mktemp /var/tmp/trymutant.XXXXXX)
(cd /verif && VERIF_NOEVIDENCE=1 ./check "$id" "$tier") > "$out" 2>&1
rc=$?
grep -E "^VIOLATION|^KNOWN-FINDING|^\[C[0-9]+\] eval|INFRA" "$out" | cut -c1-260 | head -12
grep -A2 "^VIOLATION" "$out" | grep "^    [a-zA-Z]" | grep -v "oracle=" | cut -c1-400 | head -4
case $rc in 1) echo "RESULT: CAUGHT ($id $tier)";; 0) echo "RESULT: MISSED ($id $tier)";; *) echo "RESULT: INFRA rc=$rc"; tail -5 "$out";; esac
rm -f "$out"
