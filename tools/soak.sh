#!/bin/bash
# Runs every quick check on the unchanged tree with several seeds (no evidence written); any alarm is listed.
# usage: tools/soak.sh "1 2 3" [IDs...]
cd /verif || exit 2
seeds=${1:-"1 2 3 4 5"}; shift
ids=${*:-C08 C09 C10 C11 C18 C19}
bad=0
for s in $seeds; do for id in $ids; do
  out=$(VERIF_SEED=$s VERIF_NOEVIDENCE=1 ./check $id quick 2>&1); rc=$?
  echo "seed=$s $id rc=$rc $(echo "$out" | grep -c '^VIOLATION') violations; $(echo "$out" | grep "^\[$id\] evaluations" | cut -c1-160)"
  if [ $rc -ne 0 ]; then bad=1; echo "$out" | grep -A3 "^VIOLATION\|^check:" | cut -c1-600 | head -30; fi
done; done
exit $bad
