#!/bin/bash
# usage: tools/wave.sh <suffix>...   e.g. tools/wave.sh g h
# For every /tmp/wt-cXX-<suffix> worktree left by a sub-agent: confirm the change (vetmutant), store it under
# /verif/seeded/, remove the worktree, then run the matching check against it (trymutant). Prints one line each.
cd /verif || exit 2
for suf in "$@"; do
  for p in c08 c09 c10 c11 c18 c19; do
    wt=/tmp/wt-$p-$suf; id=$p-$suf; prop=${p^^}
    [ -d "$wt" ] || continue
    v=$(tools/vetmutant.sh "$wt" "$id" "$prop" 2>&1 | tail -1)
    case "$v" in *STORED*) ;; *) echo "$id: NOT CONFIRMED (worktree kept): $v"; continue;; esac
    git -C /repo worktree remove --force "$wt" 2>/dev/null
    r=$(timeout 1800 tools/trymutant.sh seeded/$id/patch.diff "$prop" 2>&1)
    res=$(echo "$r" | grep "^RESULT" | head -1)
    sig=$(echo "$r" | grep "^VIOLATION" | head -2 | sed 's/.*replay=[^ ]*\///; s/\.json//' | cut -c1-90 | tr '\n' ' ')
    echo "$id: $res $sig"
  done
done
git -C /repo worktree prune
