#!/bin/bash
# Re-runs every stored seeded change against the CURRENT checks (quick tier) and writes seeded/REGRESSION.txt.
cd /verif || exit 2
out=seeded/REGRESSION.txt; : > $out.tmp
for d in seeded/c*/; do
  id=$(basename $d); prop=$(python3 -c "import json;print(json.load(open('$d/meta.json'))['property'])")
  r=$(timeout 2400 tools/trymutant.sh /verif/$d/patch.diff "$prop" 2>&1 | grep "^RESULT\|patch does not apply" | head -1)
  echo "$id $prop ${r:-RESULT: ?}" | tee -a $out.tmp
done
mv $out.tmp $out
