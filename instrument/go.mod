module verifinstrument

go 1.21
