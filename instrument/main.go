// instrument rewrites, in a scratch copy of the repository, every import of
// "sync" and "sync/atomic" in non-test Go files to the simulator's shims
// (verifshim/simsync, verifshim/simatomic), keeping the local names `sync` and
// `atomic`, byte-for-byte preserving everything else (so line numbers in race
// reports and stack traces are those of /repo).
//
// usage: instrument <dir>...
package main

import (
	"fmt"
	"go/parser"
	"go/token"
	"os"
	"path/filepath"
	"sort"
	"strings"
)

var repl = map[string][2]string{
	`"sync"`:        {"sync", `"verifshim/simsync"`},
	`"sync/atomic"`: {"atomic", `"verifshim/simatomic"`},
}

type edit struct {
	off, end int
	text     string
}

func processFile(path string) (bool, error) {
	src, err := os.ReadFile(path)
	if err != nil {
		return false, err
	}
	fset := token.NewFileSet()
	f, err := parser.ParseFile(fset, path, src, parser.ImportsOnly)
	if err != nil {
		return false, err
	}
	var edits []edit
	for _, im := range f.Imports {
		r, ok := repl[im.Path.Value]
		if !ok {
			continue
		}
		off := fset.Position(im.Path.Pos()).Offset
		end := fset.Position(im.Path.End()).Offset
		text := r[1]
		if im.Name == nil {
			text = r[0] + " " + r[1]
		}
		edits = append(edits, edit{off, end, text})
	}
	if len(edits) == 0 {
		return false, nil
	}
	sort.Slice(edits, func(i, j int) bool { return edits[i].off > edits[j].off })
	out := string(src)
	for _, e := range edits {
		out = out[:e.off] + e.text + out[e.end:]
	}
	return true, os.WriteFile(path, []byte(out), 0o644)
}

func main() {
	n := 0
	for _, root := range os.Args[1:] {
		err := filepath.Walk(root, func(p string, info os.FileInfo, err error) error {
			if err != nil {
				return err
			}
			if info.IsDir() || !strings.HasSuffix(p, ".go") || strings.HasSuffix(p, "_test.go") {
				return nil
			}
			ch, err := processFile(p)
			if err != nil {
				return fmt.Errorf("%s: %w", p, err)
			}
			if ch {
				n++
			}
			return nil
		})
		if err != nil {
			fmt.Fprintln(os.Stderr, "instrument:", err)
			os.Exit(2)
		}
	}
	fmt.Printf("instrument: rewrote imports in %d files\n", n)
}
